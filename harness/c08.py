"""C08 — clone reports: verbatim copies are found and every reported pair is justified."""
import json
import os
import shutil

import lib
import clonecommon as cc
from lib import cZ, cN, cQ, clist


def toml_for(cfg):
    lines = ["[clones]"]
    for k in ("min_lines", "min_nodes"):
        lines.append("%s = %d" % (k, cfg[k]))
    for k in ("similarity_threshold", "type1_threshold", "type2_threshold", "type3_threshold", "type4_threshold",
              "min_similarity", "max_similarity"):
        lines.append("%s = %s" % (k, repr(float(cfg[k]))))
    if cfg.get("max_edit_distance") is not None:
        lines.append("max_edit_distance = %s" % repr(float(cfg["max_edit_distance"])))
    lines.append("enabled_clone_types = [%s]" % ", ".join('"type%d"' % t for t in cfg["enabled"]))
    lines.append("enable_dfa = %s" % ("true" if cfg["enable_dfa"] else "false"))
    lines.append('lsh_enabled = "%s"' % cfg["lsh_enabled"])
    if cfg.get("lsh_auto_threshold"):
        lines.append("lsh_auto_threshold = %d" % cfg["lsh_auto_threshold"])
    if cfg.get("lsh"):
        lines += ["lsh_bands = %d" % cfg["lsh"]["bands"], "lsh_rows = %d" % cfg["lsh"]["rows"], "lsh_hashes = %d" % cfg["lsh"]["hashes"],
                  "lsh_similarity_threshold = %s" % repr(float(cfg["lsh"]["threshold"]))]
    return "\n".join(lines) + "\n"


def choose_cfg(rng, probe, max_frags=45):
    """A configuration accepted by Validate, with boundaries taken from what the probe run observed."""
    sims = [c["sim"] for c in probe["table"]]
    t = cc.rand_thresholds(rng, sims)
    frs = probe["frags"] or [{"lines": 5, "size": 10}]
    f = rng.choice(frs)
    k = rng.random()
    min_lines = max(1, f["lines"] + rng.choice([0, 0, 1, -1])) if k < 0.6 else rng.choice([3, 4, 5, 6, 8])
    f = rng.choice(frs)
    min_nodes = max(1, f["size"] + rng.choice([0, 0, 1, -1])) if rng.random() < 0.6 else rng.choice([4, 6, 8, 10])
    if max_frags < 40:      # quick tier: the probe (min 4 lines / 6 nodes) must see every fragment the run will extract
        min_lines, min_nodes = max(min_lines, 4), max(min_nodes, 6)
    # keep the fragment set small enough for the O(n^2) similarity table (both orientations, classifier gate)
    while sum(1 for x in frs if x["lines"] >= min_lines and x["size"] >= min_nodes) > max_frags:
        min_lines, min_nodes = min_lines + 1, min_nodes + 1
    pool = [s for s in sims if s > 0.2] or [0.7]
    sim_thr = rng.choice([0.0, t[3], t[2], rng.choice(pool), min(1.0, rng.choice(pool) + 2.0 ** -40), 0.65, 0.9, 1.0])
    k = rng.random()
    if k < 0.12:
        min_sim, max_sim = 1.0, 1.0     # only exact copies: the filter boundaries coincide with similarity 1.0
    elif k < 0.55:
        min_sim, max_sim = 0.0, 1.0
    elif k < 0.8:
        min_sim, max_sim = rng.choice(pool), 1.0
    else:
        a, b = rng.choice(pool), rng.choice(pool + [1.0])
        min_sim, max_sim = min(a, b), max(a, b)
    enabled = [1, 2, 3, 4] if rng.random() < 0.6 else sorted(rng.sample([1, 2, 3, 4], rng.randint(1, 3)))
    cfg = dict(min_lines=min_lines, min_nodes=min_nodes, similarity_threshold=sim_thr, type1_threshold=t[0], type2_threshold=t[1],
               type3_threshold=t[2], type4_threshold=t[3], min_similarity=min_sim, max_similarity=max_sim, enabled=enabled,
               enable_dfa=rng.random() < 0.5, lsh_enabled="false", lsh=None)
    if rng.random() < 0.25:
        cfg["lsh_enabled"] = "true"
        cfg["lsh"] = dict(bands=rng.choice([1, 8, 32, 64]), rows=rng.choice([1, 2, 4, 8, 200]), hashes=rng.choice([16, 64, 128]),
                          threshold=rng.choice([0.0, 0.3, 0.5, 0.9]))
        # lsh_enabled = "auto": LSH from lsh_auto_threshold fragments on (domain.ShouldUseLSH); the threshold sits on / next to the
        # number of fragments this configuration extracts (decided by a side generator: the other draws stay what they were)
        side = cc.side_rng(rng)
        if side.random() < 0.6:
            n_est = sum(1 for x in frs if x["lines"] >= min_lines and x["size"] >= min_nodes)
            cfg["lsh_enabled"] = "auto"
            cfg["lsh_auto_threshold"] = max(1, n_est + side.choice([-1, 0, 0, 1]))
    return cfg


def skel_candidates(sk):
    """SPEC side: every candidate node of a file's statement skeleton, through all five statement lists."""
    if not sk:
        return []
    out = [(sk["s"], sk["e"])] if sk["c"] else []
    for lst in sk["l"]:
        for sub in lst or []:
            out += skel_candidates(sub)
    return out


def skel_term(sk):
    return "(Walk.mk %s %s %s %s)" % (cZ(sk["s"]), cZ(sk["e"]), "true" if sk["c"] else "false",
                                      " ".join(clist([skel_term(x) for x in (lst or [])]) for lst in sk["l"]))


def loc_of(c):
    l = c["location"]
    return (l["file_path"], l["start_line"], l["end_line"])


EPS40 = 2.0 ** -40

# cost models: what the CLI uses (service.createDetectorConfig: "python", no boilerplate discount, classifier gate when
# enable_dfa; skip_docstrings from the configuration, default true since the repair of C17-G5 — "cli-nodfa" keeps the
# docstrings, i.e. [clones] skip_docstrings = false) and the other models of NewCloneDetector
COST_VARIANTS = {
    "cli": dict(CostModelType="python", ReduceBoilerplateSimilarity=False, BoilerplateMultiplier=0, EnableDFAAnalysis=True, SkipDocstrings=True),
    "cli-nodfa": dict(CostModelType="python", ReduceBoilerplateSimilarity=False, BoilerplateMultiplier=0, EnableDFAAnalysis=False, SkipDocstrings=False),
    "python-boilerplate": dict(CostModelType="python", ReduceBoilerplateSimilarity=True, BoilerplateMultiplier=0.1, EnableDFAAnalysis=False),
    "python-ignore": dict(CostModelType="python", IgnoreLiterals=True, IgnoreIdentifiers=True, EnableDFAAnalysis=False),
    "default": dict(CostModelType="default", EnableDFAAnalysis=False),
    "weighted": dict(CostModelType="weighted", EnableDFAAnalysis=False),
    # a name NewCloneDetector does not know: falls back to the plain Python cost model (clone_detector.go:293)
    "unknown-name": dict(CostModelType="no-such-model", EnableDFAAnalysis=False),
}


def floc(f):
    return "%s:%d-%d" % (f["file"], f["start"], f["end"])


def check_similarity_hypotheses(ck, res, replay, what=""):
    """The Section hypotheses of Props/C08.v on every fragment pair of a driver result (table 'full')."""
    frags = res["frags"]
    table = {(c["i"], c["j"]): c for c in res["table"]}
    for (i, j), c in table.items():
        o = table.get((j, i))
        if o and (o["sim"] != c["sim"] or o["dist"] != c["dist"] or o["gate"] != c["gate"]):
            ck.n_asym = getattr(ck, "n_asym", 0) + 1
            if ck.n_asym > 6:       # enough concrete witnesses in one run
                return False
            ck.violation("similarity depends on which fragment comes first%s: sim(%s, %s) = %r dist %r gate %s, but sim(%s, %s) = %r dist %r gate %s"
                         % (what, floc(frags[i]), floc(frags[j]), c["sim"], c["dist"], c["gate"], floc(frags[j]), floc(frags[i]), o["sim"], o["dist"], o["gate"]),
                         dict(replay, frag_a=frags[i], frag_b=frags[j], sim_ab=c["sim"], sim_ba=o["sim"]), independent=True)
            return False
        if not (0.0 <= c["sim"] <= 1.0):
            ck.violation("similarity %r outside [0,1]" % c["sim"], dict(replay, frag_a=frags[i], frag_b=frags[j]), independent=True)
            return False
        if frags[i]["tree"] == frags[j]["tree"] and (c["sim"] != 1.0 or c["dist"] != 0.0 or not c["gate"] or
                                                     frags[i]["size"] != frags[j]["size"] or frags[i]["feats"] != frags[j]["feats"]):
            ck.violation("equal trees but similarity %r distance %r gate %s sizes %d/%d" % (c["sim"], c["dist"], c["gate"], frags[i]["size"], frags[j]["size"]),
                         dict(replay, frag_a=frags[i], frag_b=frags[j]), independent=True)
            return False
    return True


def band_flip_configs(s, full):
    """Threshold settings accepted by Validate that sit ON the observed similarity s (and 2^-40 next to it):
    'band': the Type-2 edge is at s and Type-3 is not enabled (the default enabled set), so a pair with a slightly lower
    similarity in the other orientation is dropped; 'report': the reporting threshold is at s."""
    out = []
    for eps in ((0.0, EPS40, -EPS40) if full else (0.0,)):
        t = s + eps
        if not (0.2 < t < 1.0):
            continue
        out.append(("band%+d" % (0 if eps == 0 else (1 if eps > 0 else -1)),
                    dict(type1=max(0.98, (1.0 + t) / 2), type2=t, type3=t - 0.04, type4=t - 0.08, sim_thr=t - 0.08, enabled=[1, 2, 4])))
        out.append(("report%+d" % (0 if eps == 0 else (1 if eps > 0 else -1)),
                    dict(type1=0.99, type2=0.98, type3=0.97, type4=0.05, sim_thr=t, enabled=[1, 2, 3, 4])))
    return out


def pairset(res):
    out = set()
    for p in res["detect"]:
        a, b = res["frags"][p["i"]], res["frags"][p["j"]]
        out.add((tuple(sorted([floc(a), floc(b)])), p["sim"], p["dist"], p["type"]))
    return out


def twin_section(ck, rng, thorough, stats, base):
    """Related-construct twins (clonecommon.TWIN_KINDS): symmetry of the similarity under every cost model and order
    invariance of the detector and of the CLI with thresholds on the observed similarities."""
    related = cc.related_pairs_from_source(lib.REPO)
    if related is None:
        ck.broken_ties.append("relatedPairs table of PythonCostModel.areRelatedNodeTypes not found in apted_cost.go")
        related = list(cc.RELATED_TO_KIND)
    mixes = []
    for pr in related:
        k = cc.RELATED_TO_KIND.get(tuple(pr)) or cc.RELATED_TO_KIND.get(tuple(reversed(pr)))
        if k is None:
            ck.broken_ties.append("areRelatedNodeTypes lists %s which the twin library does not cover" % (pr,))
        else:
            mixes.append([k])
    mixes += [["with", "for"], ["setlist"], ["setcomp"], ["whilefor"]]
    if thorough:
        mixes = mixes * 3 + [list(m) for m in cc.TWIN_MIXES] * 2
    variants = list(COST_VARIANTS)
    twins = []
    for ti, kinds in enumerate(mixes):
        texts, meta = cc.gen_twins(rng, kinds)
        vs = variants if thorough else ["cli", variants[1 + ti % (len(variants) - 1)]]
        twins.append(dict(texts=texts, meta=meta, variants=vs))
    stats["twin_projects"] = len(twins)
    stats["twin_kinds"] = sorted({k for t in twins for k in t["meta"]["kinds"]})
    # ---- phase 1: similarities in both orientations under each cost model
    lenient = dict(MinLines=5, MinNodes=8, Type1Threshold=0.99, Type2Threshold=0.98, Type3Threshold=0.97, Type4Threshold=0.05,
                   SimilarityThreshold=0.05, MaxEditDistance=0)
    reqs, idx = [], []
    for ti, t in enumerate(twins):
        m = t["meta"]
        files = [(m["a"], t["texts"][m["a"]]), (m["b"], t["texts"][m["b"]])]
        for v in t["variants"]:
            reqs.append(cc.driver_req(files, dict(lenient, **COST_VARIANTS[v]), table="full"))
            idx.append((ti, v))
    res1 = [cc.norm(x) for x in lib.driver(reqs, timeout=900)]
    sims = {}
    for (ti, v), res in zip(idx, res1):
        t = twins[ti]
        m = t["meta"]
        replay = {"kind": "twins", "files": t["texts"], "twin": m, "cost_model": v, "detector_config": dict(lenient, **COST_VARIANTS[v])}
        if "error" in res:
            ck.broken_ties.append("driver failed on twins %s: %s" % (m["kinds"], res["error"]))
            continue
        if res.get("parse_errors"):
            ck.broken_ties.append("twin source does not parse: %s %s" % (m["kinds"], res["parse_errors"]))
            continue
        stats["twin_symmetry_cells"] = stats.get("twin_symmetry_cells", 0) + len(res["table"])
        ok = check_similarity_hypotheses(ck, res, replay, " (twins %s, cost model %s)" % ("+".join(m["kinds"]), v))
        top = {f["file"]: i for i, f in enumerate(res["frags"]) if f["start"] == m["start"]}
        if len(top) == 2:
            c = {(x["i"], x["j"]): x for x in res["table"]}
            sims[(ti, v)] = (c[(top[m["a"]], top[m["b"]])]["sim"], c[(top[m["b"]], top[m["a"]])]["sim"], ok)
            stats.setdefault("twin_sims", []).append(round(sims[(ti, v)][0], 4))
    # ---- phase 2 (detector): thresholds on the observed similarities, both file orders
    reqs, idx = [], []
    for (ti, v), (sab, sba, ok) in sims.items():
        t = twins[ti]
        m = t["meta"]
        fa, fb = (m["a"], t["texts"][m["a"]]), (m["b"], t["texts"][m["b"]])
        for name, c in band_flip_configs(max(sab, sba), True):
            cfg = dict(lenient, Type1Threshold=c["type1"], Type2Threshold=c["type2"], Type3Threshold=c["type3"], Type4Threshold=c["type4"],
                       SimilarityThreshold=c["sim_thr"], **COST_VARIANTS[v])
            reqs.append(cc.driver_req([fa, fb], cfg, table="none"))
            reqs.append(cc.driver_req([fb, fa], cfg, table="none"))
            idx.append((ti, v, name, cfg))
    res2 = [cc.norm(x) for x in lib.driver(reqs, timeout=900)] if reqs else []
    for k, (ti, v, name, cfg) in enumerate(idx):
        ra, rb = res2[2 * k], res2[2 * k + 1]
        if "error" in ra or "error" in rb:
            ck.broken_ties.append("driver failed on twins: %s" % (ra.get("error") or rb.get("error")))
            continue
        stats["twin_order_runs"] = stats.get("twin_order_runs", 0) + 1
        pa, pb = pairset(ra), pairset(rb)
        if pa != pb and not [1 for w, _ in ck.violations if "twins" in w and twins[ti]["meta"]["a"] in w and v in w]:
            m = twins[ti]["meta"]
            ck.violation("the set of detected pairs depends on the file order (twins %s, cost model %s, thresholds %s on the observed similarity): "
                         "order [%s, %s] gives %s, order [%s, %s] gives %s" % ("+".join(m["kinds"]), v, name, m["a"], m["b"], sorted(pa)[:3], m["b"], m["a"], sorted(pb)[:3]),
                         {"kind": "twins-order", "files": twins[ti]["texts"], "twin": m, "cost_model": v, "detector_config": cfg,
                          "order_a": [m["a"], m["b"]], "pairs_a": sorted(pa), "order_b": [m["b"], m["a"]], "pairs_b": sorted(pb)}, independent=True)
    # ---- phase 3 (command line): the same with pyscn analyze, file order given by the argument order
    cli_runs = []
    for ti, t in enumerate(twins):
        key = (ti, "cli")
        if key not in sims:
            continue
        sab, sba, ok = sims[key]
        m = t["meta"]
        cfgs = band_flip_configs(max(sab, sba), thorough)
        if not thorough:
            cfgs = cfgs[ti % 2: ti % 2 + 1]
        # the built-in defaults spelled out (type1 0.85, type2 0.75, type3 0.70, type4 0.65, Type-3 not enabled)
        cfgs = cfgs + [("defaults", dict(type1=0.85, type2=0.75, type3=0.70, type4=0.65, sim_thr=0.65, enabled=[1, 2, 4], min_lines=10, min_nodes=20))]
        for name, c in cfgs:
            d = os.path.join(base, "tw%d_%s" % (ti, name.replace("+", "p").replace("-", "m")))
            for p, txt in t["texts"].items():
                os.makedirs(os.path.dirname(os.path.join(d, p)), exist_ok=True)
                with open(os.path.join(d, p), "w") as f:
                    f.write(txt)
            toml = toml_for(dict(min_lines=c.get("min_lines", 5), min_nodes=c.get("min_nodes", 8), similarity_threshold=c["sim_thr"],
                                 type1_threshold=c["type1"], type2_threshold=c["type2"], type3_threshold=c["type3"], type4_threshold=c["type4"],
                                 min_similarity=0.0, max_similarity=1.0, enabled=c["enabled"], enable_dfa=True, lsh_enabled="false", lsh=None))
            with open(os.path.join(d, ".pyscn.toml"), "w") as f:
                f.write(toml)
            got = []
            for order in ([m["a"], m["b"]], [m["b"], m["a"]]):
                rep = os.path.join(d, ".pyscn", "reports")
                shutil.rmtree(rep, ignore_errors=True)
                rc, out, err = lib.pyscn(["analyze", "--json", "--no-open", "--select", "clones"] + order, d)
                data = None
                if os.path.isdir(rep):
                    fs = sorted(f for f in os.listdir(rep) if f.endswith(".json"))
                    if fs:
                        data = json.load(open(os.path.join(rep, fs[-1])))
                if data is None or not data.get("clone"):
                    ck.broken_ties.append("pyscn analyze produced no clone report for twins in %s (rc=%s): %s" % (d, rc, (err or "")[-200:]))
                    got = None
                    break
                if data["clone"]["request"]["paths"] != order:
                    ck.notes.append("pyscn analyze did not keep the argument order %s: %s" % (order, data["clone"]["request"]["paths"]))
                got.append({(tuple(sorted([loc_of(p["clone1"]), loc_of(p["clone2"])])), p["similarity"], p["distance"], p["type"])
                            for p in (data["clone"]["clone_pairs"] or [])})
            if not got:
                continue
            stats["twin_cli_runs"] = stats.get("twin_cli_runs", 0) + 2
            stats["twin_cli_pairs"] = stats.get("twin_cli_pairs", 0) + len(got[0])
            if got[0] != got[1]:
                ck.violation("pyscn analyze reports different clone pairs for the two file orders of a fragment and its related-construct twin "
                             "(%s x%d, thresholds %s): `%s %s` gives %s, `%s %s` gives %s" % (
                                 "+".join(m["kinds"]), m["occ"], name, m["a"], m["b"], sorted(got[0])[:3], m["b"], m["a"], sorted(got[1])[:3]),
                             {"kind": "twins-cli-order", "files": t["texts"], "toml": toml, "twin": m, "order_a": [m["a"], m["b"]], "pairs_a": sorted(got[0]),
                              "order_b": [m["b"], m["a"]], "pairs_b": sorted(got[1]), "sim_ab": sab, "sim_ba": sba}, independent=True)


WIDE_LSH = dict(bands=64, rows=1, hashes=64, threshold=0.0)


def justify_problem(s, d, ty, fa, fb, cell, t, thr, maxd, min_nodes, min_lines):
    """The clauses of 'justified' that hold on every detection path (Props/C08.v C08_justified up to the service-side filter):
    None, or what is wrong with a pair reported with similarity s, distance d and type ty.  cell: the tree comparison of the two
    fragments (similarity, distance) or None."""
    if s < thr or s < t[3]:
        return "has similarity %r below the reporting threshold %r (Type-4 threshold %r)" % (s, thr, t[3])
    if maxd > 0 and d > maxd:
        return "has edit distance %r above max_edit_distance %r" % (d, maxd)
    if ty != cc.band_of(s, t):
        return "has type %d which is not the band of its similarity %r (thresholds %s)" % (ty, s, t)
    if min(fa["size"], fb["size"]) < min_nodes or min(fa["lines"], fb["lines"]) < min_lines:
        return "has a fragment below the minimum size (sizes %d/%d lines %d/%d, min %d nodes %d lines)" % (
            fa["size"], fb["size"], fa["lines"], fb["lines"], min_nodes, min_lines)
    if cc.overlap(fa, fb):
        return "overlaps in one file"
    if cell is None or cell[0] != s or cell[1] != d:
        return "has similarity/distance %r/%r which is not the tree comparison's %s" % (s, d, cell)
    return None


def pick_reporting_limits(side, pool, t, force):
    """Reporting threshold ON / 2^-40 next to an observed similarity above Type-4 and max edit distance ON / next to the observed distance
    of a pair at or above that threshold.  pool: [(sim, dist)] of the pairs a lenient run reports.  force: leave at least one pair
    between Type-4 and the threshold and one pair above the distance limit (a near miss of each kind).  None if the pool has none."""
    above = sorted({s for s, _ in pool if s > t[3]})
    if len(above) < 2:
        return None
    if force:
        # the lowest choice that still leaves two distinct distances at or above it
        for s in above[1:]:
            ds = sorted({d for x, d in pool if x >= s + EPS40 and d > 0})
            if len(ds) >= 2:
                break
        else:
            return None
    else:
        s = side.choice(above)
    thr = min(1.0, s + side.choice([0.0, 0.0, EPS40, -EPS40]))
    ds = sorted({d for x, d in pool if x >= thr and d > 0})
    if not ds:
        return thr, side.choice([0.0, 50.0])
    d = side.choice(ds[:-1] if force and len(ds) > 1 else ds)
    maxd = d + side.choice([0.0, 0.0, EPS40, -EPS40])
    return thr, (maxd if maxd > 0 else d)


def pick_big_limits(side, pool, cross, t):
    """As pick_reporting_limits (with near misses of both kinds), and the near miss of the reporting threshold includes a pair on
    both sides of the batch boundary: the threshold lies above the lowest similarity (>= Type-4) of such a pair.  cross: the
    [(sim, dist)] of the pairs with one fragment before and one after the boundary."""
    xs = sorted({s for s, _ in cross if s >= t[3]})
    if not xs:
        return None
    above = [s for s in sorted({s for s, _ in pool}) if s > xs[0]]
    side.shuffle(above)
    for s in above:
        thr = min(1.0, s + side.choice([0.0, 0.0, EPS40, -EPS40]))
        ds = sorted({d for x, d in pool if x >= thr and d > 0})
        if thr > xs[0] and len(ds) >= 2:
            d = side.choice(ds[:-1])
            maxd = d + side.choice([0.0, 0.0, EPS40, -EPS40])
            return thr, (maxd if maxd > 0 else d)
    return None


def plan_path_runs(side, projects, probes, thorough):
    """Detector-level runs on the generated projects with a small BatchSizeThreshold (the public entry point batches), reporting threshold
    and MaxEditDistance on / next to observed values; every detection path of the hook (standard loop, public entry point, batched
    loop for batch sizes 1, 3, 7, LSH)."""
    runs = []
    order = list(range(len(projects)))
    side.shuffle(order)
    n_runs = 40 if thorough else 4
    for pi in order * 3:
        if len(runs) >= n_runs:
            break
        probe = probes[pi]
        if "error" in probe:
            continue
        frs = probe["frags"]
        ml, mn = 4, 6
        while sum(1 for f in frs if f["lines"] >= ml and f["size"] >= mn) > (40 if thorough else 28):
            ml, mn = ml + 1, mn + 1
        ok = {i for i, f in enumerate(frs) if f["lines"] >= ml and f["size"] >= mn}
        pool = [(p["sim"], p["dist"]) for p in probe["exh_raw"] if p["i"] in ok and p["j"] in ok]
        t = cc.rand_thresholds(side, [x for x, _ in pool])
        if t[3] < 0.3 + 1e-9:       # the probe saw the pairs from similarity 0.3 on
            continue
        lim = pick_reporting_limits(side, pool, t, force=len(runs) < 2)
        if lim is None:
            continue
        gate = False                # the classifier gate is exercised by the command-line runs; the probe's comparisons have none
        cfg = dict(MinLines=ml, MinNodes=mn, SimilarityThreshold=lim[0], MaxEditDistance=lim[1], Type1Threshold=t[0], Type2Threshold=t[1],
                   Type3Threshold=t[2], Type4Threshold=t[3], SkipDocstrings=False, ReduceBoilerplateSimilarity=False, BoilerplateMultiplier=0,
                   MaxClonePairs=10000, BatchSizeThreshold=side.choice([1, 2, 3]), BatchSizeLarge=side.choice([1, 2, 3, 7, 0]),
                   BatchSizeSmall=side.choice([2, 5, 0]), LargeProjectSize=side.choice([0, 10, 500]), EnableDFAAnalysis=gate)
        lsh = [WIDE_LSH, dict(bands=side.choice([1, 8, 32]), rows=side.choice([1, 2, 4]), hashes=side.choice([16, 64, 128]), threshold=side.choice([0.0, 0.3, 0.5]))]
        texts = projects[pi][0]
        near = sum(1 for x, d in pool if t[3] <= x < lim[0]), sum(1 for x, d in pool if x >= lim[0] and lim[1] > 0 and d > lim[1])
        # the tree comparisons (similarity, distance) are those of the lenient probe run, by fragment location
        cells = {}
        for p in probe["exh_raw"]:
            a, b = frs[p["i"]], frs[p["j"]]
            cells[((a["file"], a["start"], a["end"]), (b["file"], b["start"], b["end"]))] = (p["sim"], p["dist"])
        runs.append(dict(pi=pi, texts=texts, cfg=cfg, near=near, cells=cells,
                         req=cc.driver_req(sorted(texts.items()), cfg, batch_sizes=[1, 3, 7], lsh=lsh, table="none")))
    return runs


def decide_path_runs(ck, runs, results, stats, jobs, thorough):
    """Every clause of 'justified' on the output of every detection path; verbatim copies on every path; model terms."""
    for ri, (r, res) in enumerate(zip(runs, results)):
        if "error" in res:
            ck.broken_ties.append("driver clone_pairs failed (detection paths): %s" % res["error"])
            continue
        cfg, frags = r["cfg"], res["frags"]
        t = [cfg["Type1Threshold"], cfg["Type2Threshold"], cfg["Type3Threshold"], cfg["Type4Threshold"]]
        thr = cfg["SimilarityThreshold"] if cfg["SimilarityThreshold"] > 0 else t[3]
        at = {(f["file"], f["start"], f["end"]): i for i, f in enumerate(frags)}
        cells = {}
        for (la, lb), v in r["cells"].items():
            if la in at and lb in at:
                cells[(at[la], at[lb])] = cells[(at[lb], at[la])] = v
        replay = {"kind": "detector-paths", "files": r["texts"], "detector_config": cfg, "request": r["req"]}
        n = len(frags)
        stats["path_runs"] = stats.get("path_runs", 0) + 1
        stats["path_batched_public"] = stats.get("path_batched_public", 0) + (n > cfg["BatchSizeThreshold"])
        stats["path_near_miss_similarity"] = stats.get("path_near_miss_similarity", 0) + r["near"][0]
        stats["path_near_miss_distance"] = stats.get("path_near_miss_distance", 0) + r["near"][1]
        paths = [("the standard double loop", res["exh_raw"]), ("the public entry point (BatchSizeThreshold %d, %d fragments)" % (cfg["BatchSizeThreshold"], n), res["detect"])]
        paths += [("the batched loop with batch size %s" % bs, ps) for bs, ps in sorted(res["batched"].items())]
        paths += [("the LSH path (bands %d rows %d hashes %d threshold %r)" % (lr["params"]["bands"], lr["params"]["rows"], lr["params"]["hashes"], lr["params"]["threshold"]),
                   lr["pairs"]) for lr in res["lsh"]]
        same = [(i, j) for i in range(n) for j in range(i + 1, n) if frags[i]["tree"] == frags[j]["tree"] and not cc.overlap(frags[i], frags[j])
                and not cc.line_prefilter_rejects(frags[i]["lines"], frags[j]["lines"])]
        for name, ps in paths:
            seen = {}
            for p in ps:
                fa, fb = frags[p["i"]], frags[p["j"]]
                bad = justify_problem(p["sim"], p["dist"], p["type"], fa, fb, cells.get((p["i"], p["j"])), t, thr, cfg["MaxEditDistance"], cfg["MinNodes"], cfg["MinLines"])
                if not bad and (p["i"] == p["j"] or cc.upair(p["i"], p["j"]) in seen):
                    bad = "is reported twice"
                if bad:
                    ck.violation("%s reports a pair that is not justified: %s / %s %s" % (name, floc(fa), floc(fb), bad), dict(replay, path=name, pair=p, frag_a=fa, frag_b=fb), independent=True)
                    break
                seen[cc.upair(p["i"], p["j"])] = (p["sim"], p["dist"], p["type"])
                stats["path_pairs"] = stats.get("path_pairs", 0) + 1
                if any(abs(p["sim"] - x) < 1e-9 for x in t + [thr]) or (cfg["MaxEditDistance"] > 0 and abs(p["dist"] - cfg["MaxEditDistance"]) < 1e-9):
                    stats["path_boundary_pairs"] = stats.get("path_boundary_pairs", 0) + 1
            else:
                for i, j in same:
                    stats["path_verbatim_expected"] = stats.get("path_verbatim_expected", 0) + 1
                    if seen.get((i, j)) != (1.0, 0.0, 1):
                        ck.violation("%s does not report a verbatim copy as (1.0, 0, Type-1): %s vs %s, got %s" % (name, floc(frags[i]), floc(frags[j]), seen.get((i, j))),
                                     dict(replay, path=name, frag_a=frags[i], frag_b=frags[j]), independent=True)
                        break
        # model: the same fragments and configuration on the comparison loops.  Similarity cells = the probe's comparisons (a pair
        # the probe does not report was rejected by a pre-filter or lies below 0.3: the missing cell reproduces that), no feature lists
        # (the Jaccard pre-filter and the LSH stage are tied to the model by the command-line cases above and by C09)
        if n == 0 or res["uses_gate"]:
            continue
        files, trees = cc.Coder(), cc.Coder()
        mc = cc.model_cfg_from_detector(dict(cc.service_cfg({k: 0 for k in (
            "min_lines", "min_nodes", "type1_threshold", "type2_threshold", "type3_threshold", "type4_threshold", "similarity_threshold",
            "max_edit_distance", "ignore_literals", "ignore_identifiers", "skip_docstrings", "enable_dfa", "lsh_similarity_threshold",
            "lsh_bands", "lsh_rows", "lsh_hashes")}), **cfg), use_gate=False)
        table = {"table": [dict(i=k[0], j=k[1], sim=v[0], dist=v[1], gate=True) for k, v in cells.items()]}
        cellsq, gates = cc.coq_cells(table, mc["t4"])
        body = "Definition c0 := %s.\nDefinition fs0 := %s.\n" % (cc.coq_cfg(mc), clist([cc.coq_frag(i, f, files, trees) for i, f in enumerate(frags)]))
        body += "Definition tabs0 := Build_tables %s %s [].\n" % (cellsq, gates)
        body += "Eval vm_compute in (run_exhaustive tabs0 c0 fs0).\nEval vm_compute in (run_detect tabs0 c0 fs0).\n"
        evals = [("the standard double loop", res["exh_raw"]), ("the public entry point", res["detect"])]
        for bs, ps in sorted(res["batched"].items()):
            body += "Eval vm_compute in (run_batched tabs0 c0 fs0 %s).\n" % cZ(int(bs))
            evals.append(("the batched loop with batch size %s" % bs, ps))
        jobs.append(("C08_paths_%d" % ri, cc.REQ, body))
        r["job"], r["evals"] = len(jobs) - 1, evals


def tie_path_runs(ck, runs, model_out, stats):
    for r in runs:
        if "job" not in r:
            continue
        for (name, ps), v in zip(r["evals"], model_out[r["job"]]):
            impl = {cc.upair(p["i"], p["j"], p["type"]) for p in ps}
            m = {cc.upair(a, b, ty) for a, b, ty in cc.pairs_of_model(v)}
            stats["path_model_cases"] = stats.get("path_model_cases", 0) + 1
            if impl != m:
                ck.broken_ties.append("model differs from %s: model-only %s impl-only %s (cfg %s)" % (name, sorted(m - impl)[:3], sorted(impl - m)[:3], r["cfg"]))


def run_big_project(ck, side, base, thorough):
    """A project with more than 100 fragments through `pyscn analyze` (batched comparison, batch size 100: the fragments from the 101st
    on are compared with all earlier ones): a lenient run (reporting threshold = Type-4 = 0.5) shows the similarities and distances,
    then the run under test with the reporting threshold (configuration file or --clone-threshold) and max_edit_distance on / next to
    observed values.  Runs beside the other sections; decided by decide_big_project."""
    out = {}
    try:
        files, items = cc.gen_family_files(side, 13)
        pcfg = dict(MinLines=4, MinNodes=6, MaxEditDistance=0, SimilarityThreshold=0, Type1Threshold=0.85, Type2Threshold=0.75, Type3Threshold=0.7,
                    Type4Threshold=0.65, MaxClonePairs=10000, BatchSizeThreshold=50, CostModelType="python", SkipDocstrings=True)
        pres = [cc.norm(x) for x in lib.driver([cc.driver_req([f], pcfg, table="none") for f in files], timeout=900)]
        total, keep = 0, 0
        for f, pr in zip(files, pres):
            if "error" in pr or pr.get("parse_errors"):
                return dict(error="driver probe of the big project failed: %s" % (pr.get("error") or pr.get("parse_errors")))
            if total > 101:
                break
            total += len(pr["frags"])
            keep += 1
        if total <= 100:
            return dict(error="generator: the big project has only %d fragments" % total)
        files, pres = files[:keep], pres[:keep]
        out.update(texts=dict(files), items=[it for it in items if it["path"] in dict(files)], probe={f[0]: pr for f, pr in zip(files, pres)})
        d = os.path.join(base, "big")
        shutil.rmtree(d, ignore_errors=True)
        for p, txt in files:
            os.makedirs(os.path.dirname(os.path.join(d, p)), exist_ok=True)
            with open(os.path.join(d, p), "w") as f:
                f.write(txt)
        dfa = side.random() < 0.5
        common = dict(min_lines=4, min_nodes=6, enable_dfa=dfa, lsh_enabled=side.choice(["false", "auto"]), lsh=None)
        lenient = dict(common, similarity_threshold=0.5, type1_threshold=0.99, type2_threshold=0.98, type3_threshold=0.97, type4_threshold=0.5,
                       min_similarity=0.0, max_similarity=1.0, enabled=[1, 2, 3, 4])
        with open(os.path.join(d, ".pyscn.toml"), "w") as f:
            f.write(toml_for(lenient))
        rc, data, err = lib.analyze_json(d, ["--select", "clones"])
        if data is None or not data.get("clone"):
            return dict(out, error="pyscn analyze produced no clone report for the big project (rc=%s): %s" % (rc, (err or "")[-200:]))
        out["lenient"] = data["clone"]
        pool = [(p["similarity"], p["distance"]) for p in (data["clone"]["clone_pairs"] or [])]
        # fragment positions in the order the files were analysed: which reported pairs straddle the batch boundary
        fidx, k = {}, 0
        for path in data["clone"]["request"]["paths"]:
            for f in out["probe"][path]["frags"]:
                fidx[(f["file"], f["start"], f["end"])] = k
                k += 1
        at = [(fidx.get(loc_of(p["clone1"]), -1), fidx.get(loc_of(p["clone2"]), -1)) for p in (data["clone"]["clone_pairs"] or [])]
        cross = [pool[i] for i, (a, b) in enumerate(at) if min(a, b) >= 0 and max(a, b) >= 100 > min(a, b)]
        lim = None
        for _ in range(60):
            t = cc.rand_thresholds(side, [x for x, _ in pool])
            lim = pick_big_limits(side, pool, cross, t) if t[3] >= 0.5 else None
            if lim:
                break
        if not lim:
            return dict(out, error="generator: the big project has no near miss on both sides of the batch boundary (%d pairs of the lenient run straddle it)" % len(cross))
        how = side.choice(["file", "flag"])
        k = side.random()
        min_sim, max_sim = (0.0, 1.0) if k < 0.7 else (side.choice([x for x, _ in pool] or [0.7]), 1.0)
        enabled = [1, 2, 3, 4] if side.random() < 0.6 else sorted(side.sample([1, 2, 3, 4], side.randint(2, 3)))
        strict = dict(common, similarity_threshold=lim[0] if how == "file" else 0.65, max_edit_distance=lim[1], type1_threshold=t[0], type2_threshold=t[1],
                      type3_threshold=t[2], type4_threshold=t[3], min_similarity=min_sim, max_similarity=max_sim, enabled=enabled)
        toml = toml_for(strict)
        with open(os.path.join(d, ".pyscn.toml"), "w") as f:
            f.write(toml)
        flags = ["--clone-threshold=%r" % lim[0]] if how == "flag" else []
        rc, data, err = lib.analyze_json(d, ["--select", "clones"] + flags)
        if data is None or not data.get("clone"):
            return dict(out, error="pyscn analyze produced no clone report for the big project (rc=%s): %s" % (rc, (err or "")[-200:]))
        out.update(strict=data["clone"], toml=toml, flags=flags, limits=lim, how=how)
    except Exception as e:      # reported by the main thread
        out["error"] = "big project: %r" % (e,)
    return out


def decide_big_project(ck, big, stats, jobs):
    if big.get("error"):
        ck.broken_ties.append(big["error"])
        return
    clone, req = big["strict"], big["strict"]["request"]
    replay = {"kind": "cli-big", "files": big["texts"], "toml": big["toml"], "flags": big["flags"], "request": req}
    frags, cands = [], []
    for path in req["paths"]:
        pr = big["probe"].get(path)
        if pr is None:
            ck.broken_ties.append("big project: pyscn analysed %s which was not generated" % path)
            return
        frags += pr["frags"]
        cands += pr["candidates"]
    n = len(frags)
    stats["big_fragments"], stats["big_files"] = n, len(req["paths"])
    t = [req["type1_threshold"], req["type2_threshold"], req["type3_threshold"], req["type4_threshold"]]
    thr = req["similarity_threshold"] if req["similarity_threshold"] > 0 else t[3]
    if n <= 100 or abs(thr - big["limits"][0]) > 1e-12 or abs(req["max_edit_distance"] - big["limits"][1]) > 1e-12 or req["min_lines"] != 4 or req["min_nodes"] != 6:
        ck.broken_ties.append("big project: %d fragments, request threshold %r / max_edit_distance %r / min sizes %d, %d but the generator meant %r / %r / 4, 6 (%s)" % (
            n, thr, req["max_edit_distance"], req["min_lines"], req["min_nodes"], big["limits"][0], big["limits"][1], big["how"]))
        return
    fidx = {(f["file"], f["start"], f["end"]): i for i, f in enumerate(frags)}
    cells = {}
    for p in big["lenient"]["clone_pairs"] or []:
        ia, ib = fidx.get(loc_of(p["clone1"])), fidx.get(loc_of(p["clone2"]))
        if ia is None or ib is None:
            ck.broken_ties.append("big project: the lenient run reports %s / %s which the fragment extraction of the hook does not list" % (loc_of(p["clone1"]), loc_of(p["clone2"])))
            return
        cells[(ia, ib)] = cells[(ib, ia)] = (p["similarity"], p["distance"])
    pairs = clone["clone_pairs"] or []
    stats["big_reported_pairs"], stats["big_lenient_pairs"] = len(pairs), len(cells) // 2
    seen, bad = {}, None
    for p in pairs:
        la, lb = loc_of(p["clone1"]), loc_of(p["clone2"])
        ia, ib = fidx.get(la), fidx.get(lb)
        s, ty = p["similarity"], p["type"]
        if ia is None or ib is None:
            bad = "is not a pair of extracted fragments"
        else:
            bad = justify_problem(s, p["distance"], ty, frags[ia], frags[ib], cells.get((ia, ib)), t, thr, req["max_edit_distance"], req["min_nodes"], req["min_lines"])
            if not bad and (s < req["min_similarity"] or s > req["max_similarity"]):
                bad = "has similarity %r outside the filter range [%r, %r]" % (s, req["min_similarity"], req["max_similarity"])
            elif not bad and ty not in (req["clone_types"] or []):
                bad = "has type %d which is not enabled (%s)" % (ty, req["clone_types"])
            elif not bad and cc.upair(ia, ib) in seen:
                bad = "is reported twice"
        if bad:
            ck.violation("pyscn analyze on a project with %d fragments (batched comparison) reports a pair that is not justified: %s / %s %s" % (n, la, lb, bad),
                         dict(replay, pair=p), independent=True)
            return
        seen[cc.upair(ia, ib)] = (s, p["distance"], ty)
        stats["big_cross_batch_pairs"] = stats.get("big_cross_batch_pairs", 0) + (max(ia, ib) >= 100 > min(ia, ib))
    near = [(k, v) for k, v in cells.items() if k[0] < k[1] and t[3] <= v[0] < thr]
    far = [(k, v) for k, v in cells.items() if k[0] < k[1] and v[0] >= thr and req["max_edit_distance"] > 0 and v[1] > req["max_edit_distance"]]
    stats["big_near_miss_similarity"], stats["big_near_miss_distance"] = len(near), len(far)
    stats["big_near_miss_cross_batch"] = sum(1 for k, _ in near + far if k[1] >= 100 > k[0])
    if 1 in (req["clone_types"] or []) and req["min_similarity"] <= 1.0 <= req["max_similarity"]:
        for i in range(n):
            for j in range(i + 1, n):
                if frags[i]["tree"] != frags[j]["tree"] or cc.overlap(frags[i], frags[j]):
                    continue
                stats["verbatim_expected"] += 1
                got = seen.get((i, j))
                if got == (1.0, 0.0, 1):
                    stats["verbatim_found"] += 1
                    continue
                tags = {"kind": "verbatim-missed", "line_count_prefilter_rejects": cc.line_prefilter_rejects(frags[i]["lines"], frags[j]["lines"]),
                        "reported_otherwise": got is not None}
                e = ck.match_known(tags)
                if e:
                    stats["verbatim_missed_f19"] += 1
                    ck.known_finding(e)
                else:
                    ck.violation("verbatim copy not reported as (1.0, 0, Type-1) in a project with %d fragments: %s vs %s, got %s" % (n, floc(frags[i]), floc(frags[j]), got),
                                 dict(replay, frag_a=frags[i], frag_b=frags[j], tags=tags), independent=True)
    big["seen"] = seen
    # model: the service pipeline on the candidates of every file; similarity cells = what the lenient run observed (a pair it does
    # not report was rejected before or by the classification, which the missing cell reproduces), no feature lists
    cid, pos = [], 0
    for f in frags:
        while not (cands[pos]["file"] == f["file"] and cands[pos]["start"] == f["start"] and cands[pos]["end"] == f["end"]):
            pos += 1
        cid.append(pos)
        pos += 1
    files, trees = cc.Coder(), cc.Coder()
    byc = {c: i for i, c in enumerate(cid)}
    cterms = [cc.coq_frag(j, dict(frags[byc[j]], feats=[]) if j in byc else c, files, trees) for j, c in enumerate(cands)]
    table = {"table": [dict(i=cid[k[0]], j=cid[k[1]], sim=v[0], dist=v[1], gate=True) for k, v in cells.items()]}
    mode = 1 if req["lsh_enabled"] == "true" else 2 if req["lsh_enabled"] == "false" else 0
    mc = cc.model_cfg_from_detector(cc.service_cfg(req), req["min_similarity"], req["max_similarity"], req["clone_types"] or [], use_gate=False)
    cellsq, gates = cc.coq_cells(table, mc["t4"])
    body = ("Definition cands := %s.\nDefinition tabs := Build_tables %s %s [].\nDefinition c := %s.\nEval vm_compute in (run_report tabs c %s %s cands).\n"
            % (clist(cterms), cellsq, gates, cc.coq_cfg(mc), cZ(mode), cZ(req["lsh_auto_threshold"])))
    jobs.append(("C08_big", cc.REQ, body))
    big["job"], big["cid"] = len(jobs) - 1, cid


def tie_big_project(ck, big, model_out, stats):
    if "job" not in big:
        return
    cid = big["cid"]
    m = {cc.upair(a, b, ty) for a, b, ty in cc.pairs_of_model(model_out[big["job"]][0])}
    impl = {cc.upair(cid[a], cid[b], ty) for (a, b), (s, d, ty) in big["seen"].items()}
    stats["big_model_cases"] = 1
    if impl != m:
        ck.broken_ties.append("model report differs from pyscn analyze on the big project: model-only %s impl-only %s" % (sorted(m - impl)[:3], sorted(impl - m)[:3]))


def validation_section(ck, rng, thorough, stats, base):
    """Which configurations are 'accepted by validation' (the quantifier of C08 and the hypothesis `validate c = true` of every
    theorem in Props/C08.v and Props/C09.v): domain.CloneRequest.Validate and domain.ShouldUseLSH against the model on a lattice
    with both sides of every clause, and the command line on both sides of the clauses it can reach."""
    eps = EPS40
    ok = dict(min_lines=5, min_nodes=10, sim=0.65, maxd=50.0, t1=0.85, t2=0.75, t3=0.70, t4=0.65)
    cases = [ok]
    for k, vals in (("min_lines", [1, 0, -1, 2]), ("min_nodes", [1, 0, -3]), ("sim", [0.0, 1.0, -eps, 1.0 + eps, -0.5, 1.5, eps]),
                    ("maxd", [0.0, -eps, -1.0, eps]), ("t1", [1.0, 1.0 + eps, 2.0]), ("t4", [0.0, -eps, -0.5])):
        cases += [dict(ok, **{k: v}) for v in vals]
    for hi, lo in (("t1", "t2"), ("t2", "t3"), ("t3", "t4")):
        cases += [dict(ok, **{hi: ok[lo]}), dict(ok, **{hi: ok[lo] + eps}), dict(ok, **{hi: ok[lo] - eps}), dict(ok, **{lo: ok[hi]}), dict(ok, **{lo: ok[hi] - eps})]
    cases += [dict(ok, t1=0.5, t2=0.5, t3=0.5, t4=0.5), dict(ok, t1=3 * eps, t2=2 * eps, t3=eps, t4=0.0), dict(ok, t1=1.0, t2=1.0 - eps, t3=1.0 - 2 * eps, t4=1.0 - 3 * eps),
              dict(ok, t1=0.6, t2=0.7, t3=0.8, t4=0.9), dict(ok, t2=1.5, t1=2.0), dict(ok, t3=-0.1, t4=-0.2)]
    grid = [0.0, eps, 0.3, 0.5, 0.5 + eps, 0.7, 1.0 - eps, 1.0, 1.0 + eps, -eps]
    for _ in range(200 if thorough else 40):
        cases.append(dict(min_lines=rng.choice([1, 1, 5, 0, -1]), min_nodes=rng.choice([1, 10, 10, 0]), sim=rng.choice(grid), maxd=rng.choice([0.0, 50.0, 50.0, -eps]),
                          t1=rng.choice(grid), t2=rng.choice(grid), t3=rng.choice(grid), t4=rng.choice(grid)))
    reqs = [dict(paths=["x.py"], min_lines=c["min_lines"], min_nodes=c["min_nodes"], similarity_threshold=c["sim"], max_edit_distance=c["maxd"],
                 type1_threshold=c["t1"], type2_threshold=c["t2"], type3_threshold=c["t3"], type4_threshold=c["t4"]) for c in cases]
    modes = [("true", 1), ("false", 2), ("auto", 0), ("", 0), ("TRUE", 0)]
    lsh = [dict(mode=m, count=n, threshold=t) for m, _ in modes for t in (0, 1, 7, 500, 501) for n in sorted({0, 1, t - 1 if t else 499, t if t else 500, t + 1 if t else 501})]
    res = lib.driver([{"op": "clone_validate", "requests": reqs, "lsh": lsh}], timeout=300)[0]
    if "error" in res:
        ck.broken_ties.append("driver clone_validate failed: %s" % res["error"])
        return
    mcode = dict(modes)
    blank = cc.model_cfg_from_detector(cc.service_cfg({k: 0 for k in (
        "min_lines", "min_nodes", "type1_threshold", "type2_threshold", "type3_threshold", "type4_threshold", "similarity_threshold",
        "max_edit_distance", "ignore_literals", "ignore_identifiers", "skip_docstrings", "enable_dfa", "lsh_similarity_threshold",
        "lsh_bands", "lsh_rows", "lsh_hashes")}))
    terms = [cc.coq_cfg(dict(blank, min_lines=c["min_lines"], min_nodes=c["min_nodes"], sim_thr=c["sim"], max_dist=c["maxd"], t1=c["t1"], t2=c["t2"], t3=c["t3"], t4=c["t4"]))
             for c in cases]
    body = "Eval vm_compute in (map validate %s).\n" % clist(terms)
    body += "Eval vm_compute in (map (fun x => should_use_lsh (fst (fst x)) (snd (fst x)) (snd x)) %s).\n" % clist(
        ["(%s, %s, %s)" % (cZ(mcode[l["mode"]]), cZ(l["count"]), cZ(l["threshold"])) for l in lsh])
    try:
        mv = lib.parse_coq_values(lib.coq_eval("C08_validate", cc.REQ, body))
    except Exception as e:
        ck.broken_ties.append("model evaluation (validate) failed: %s" % str(e)[-500:])
        return
    acc = rej = 0
    for c, r, m in zip(cases, res["validate"], mv[0]):
        acc += r["ok"]
        rej += not r["ok"]
        if r["ok"] != m:
            ck.broken_ties.append("CloneRequest.Validate %s the configuration %s (%s) but the model's validate (the hypothesis of the C08/C09 theorems) says %s" % (
                "accepts" if r["ok"] else "rejects", c, r.get("error", ""), m))
            break
    for l, r, m in zip(lsh, res["use_lsh"], mv[1]):
        if r != m:
            ck.broken_ties.append("ShouldUseLSH(%r, %d, %d) = %s but the model says %s" % (l["mode"], l["count"], l["threshold"], r, m))
            break
    stats["validate_cases"] = len(cases)
    stats["validate_accepted"], stats["validate_rejected"] = acc, rej
    stats["should_use_lsh_cases"] = len(lsh)

    # ---- command line: --clone-threshold reaches CloneRequest.Validate, the configuration file is validated on loading
    d = os.path.join(base, "validate")
    os.makedirs(d, exist_ok=True)
    src = "\n".join(cc.straight_function("alpha", 12)) + "\n"
    for name in ("a.py", "b.py"):
        with open(os.path.join(d, name), "w") as f:
            f.write("import os\n\n\n" + src)
    runs = [("flag", v, None) for v in (-0.5, -eps, 0.0, 1.0, 1.0 + eps, 1.5)]
    for hi, lo in (("t1", "t2"), ("t2", "t3"), ("t3", "t4")):
        runs += [("file", None, dict(ok, **{hi: ok[lo]})), ("file", None, dict(ok, **{hi: ok[lo] + eps}))]
    runs += [("file", None, dict(ok, t1=1.0)), ("file", None, dict(ok, t1=1.0 + eps)), ("file", None, dict(ok, sim=1.0 + eps))]
    if not thorough:
        runs = runs[:6] + rng.sample(runs[6:], 4)
    for kind, v, c in runs:
        c = c or dict(ok, sim=v)
        toml = "[clones]\nmin_lines = 5\nmin_nodes = 10\n"
        if kind == "file":
            toml += "similarity_threshold = %r\ntype1_threshold = %r\ntype2_threshold = %r\ntype3_threshold = %r\ntype4_threshold = %r\n" % (
                c["sim"], c["t1"], c["t2"], c["t3"], c["t4"])
        with open(os.path.join(d, ".pyscn.toml"), "w") as f:
            f.write(toml)
        rc, data, err = lib.analyze_json(d, ["--select", "clones"] + (["--clone-threshold=%r" % v] if kind == "flag" else []))
        accepted = rc == 0 and bool(data) and bool(data.get("clone"))
        expect = (0.0 <= c["sim"] <= 1.0 and all(0.0 <= c[k] <= 1.0 for k in ("t1", "t2", "t3", "t4")) and c["t1"] > c["t2"] > c["t3"] > c["t4"])
        stats["validate_cli_runs"] = stats.get("validate_cli_runs", 0) + 1
        stats["validate_cli_rejected"] = stats.get("validate_cli_rejected", 0) + (not accepted)
        if accepted and not expect:
            ck.violation("pyscn analyze accepts a clone configuration that validation must reject (%s): similarity_threshold %r, type thresholds %r %r %r %r" % (
                "--clone-threshold" if kind == "flag" else ".pyscn.toml", c["sim"], c["t1"], c["t2"], c["t3"], c["t4"]),
                {"kind": "cli-validate", "files": {"a.py": src, "b.py": src}, "toml": toml, "flag": v, "rc": rc, "request": data["clone"].get("request")})
        elif not accepted and expect:
            ck.broken_ties.append("pyscn analyze rejects a clone configuration the model's validate accepts (%s %r): rc %s %s" % (kind, c, rc, (err or "")[:200]))
        elif accepted:
            req = data["clone"]["request"]
            if kind == "flag" and req["similarity_threshold"] != v:
                ck.notes.append("--clone-threshold=%r accepted but the request carries %r" % (v, req["similarity_threshold"]))
            if len(data["clone"].get("clone_pairs") or []) != 1:
                ck.broken_ties.append("validate lattice: expected the one verbatim pair, got %d pairs (%s %r)" % (len(data["clone"].get("clone_pairs") or []), kind, c))


def main(tier):
    ck = lib.Check("C08", tier)
    ck.prepare("C08.v")
    rng = ck.rng
    thorough = tier == "thorough"
    n_proj = 100 if thorough else 7
    cfgs_per = 3 if thorough else 2
    stats = dict(projects=0, cli_runs=0, reported_pairs=0, verbatim_expected=0, verbatim_found=0, verbatim_missed_f19=0,
                 order_runs=0, model_cases=0, extract_cases=0, boundary_thresholds=0, relations={}, truncated=0, lsh_cli=0,
                 placements={})
    cases = []
    if not ck.go_ok:
        ck.finish()
    base = lib.fresh_dir("c08")
    # a project with more than 100 fragments through the command line (batched comparison); runs beside the sections below
    import concurrent.futures
    workers = concurrent.futures.ThreadPoolExecutor(max_workers=2)
    big_future = workers.submit(run_big_project, ck, cc.side_rng(rng, "big"), base, thorough)

    projects = []
    for pi in range(n_proj):
        # copy placements: every project has one verbatim copy nested in a compound statement (cycling through clonecommon.WRAPS:
        # handler of try/except and try/except*, second handler, finally block, handler in finally / finally in handler, handler of a
        # try inside with / def / else of for; else of try, try body, with, else of if), others at random; docstrings on some bases
        # (handler/finally placements first, both groups in an order drawn per seed: the quick tier's projects see a different
        # selection for each VERIF_SEED, the thorough tier all of them many times)
        if pi == 0:
            side = cc.side_rng(rng)
            hw, ow = sorted(cc.HANDLER_WRAPS), sorted(w for w in cc.WRAPS if w not in cc.HANDLER_WRAPS)
            side.shuffle(hw)
            side.shuffle(ow)
            # quick: 5 handler/finally placements and 2 others; "except" or "finally" always among them
            first = ("except", "finally")[side.randrange(2)]
            hw.sort(key=lambda w: w != first)
            wraps = (hw[:5] + ow[:2] + hw[5:] + ow[2:]) if not thorough else hw + ow
        texts, items = cc.gen_project(rng, n_bases=rng.randint(2, 3), max_items=rng.choice([5, 6, 7, 9]) if thorough else rng.choice([4, 5, 6]),
                                      force_wrap=wraps[pi % len(wraps)], doc_p=0.3)
        projects.append((texts, items))
    # probe: lenient configuration, learn similarities and sizes
    probe_cfg = dict(MinLines=4, MinNodes=6, MaxEditDistance=0, ReduceBoilerplateSimilarity=False, BoilerplateMultiplier=0,
                     SkipDocstrings=False, Type4Threshold=0.3, SimilarityThreshold=0.3)
    import time
    t0 = time.time()
    probes = [cc.norm(x) for x in lib.driver([cc.driver_req(sorted(t.items()), probe_cfg, table="upper") for t, _ in projects], timeout=1200)]
    lib.log("probe %.1fs" % (time.time() - t0))
    # detector-level runs on every detection path (small BatchSizeThreshold: the public entry point batches), beside the CLI runs
    path_runs = plan_path_runs(cc.side_rng(rng, "paths"), projects, probes, thorough)
    path_future = workers.submit(lambda: [cc.norm(x) for x in lib.driver([r["req"] for r in path_runs], timeout=1800)] if path_runs else [])

    runs = []
    for pi, (texts, items) in enumerate(projects):
        if "error" in probes[pi]:
            ck.broken_ties.append("driver probe failed: %s" % probes[pi]["error"])
            continue
        stats["projects"] += 1
        for it in items:
            stats["relations"][it["relation"]] = stats["relations"].get(it["relation"], 0) + 1
        for k in range(cfgs_per):
            cfg = choose_cfg(rng, probes[pi], max_frags=45 if thorough else 26)
            d = os.path.join(base, "p%d_%d" % (pi, k))
            for p, t in texts.items():
                os.makedirs(os.path.dirname(os.path.join(d, p)), exist_ok=True)
                with open(os.path.join(d, p), "w") as f:
                    f.write(t)
            with open(os.path.join(d, ".pyscn.toml"), "w") as f:
                f.write(toml_for(cfg))
            # file order: default discovery, or explicit permuted file arguments
            order = None
            if rng.random() < 0.5:
                order = list(texts)
                rng.shuffle(order)
            runs.append(dict(pi=pi, k=k, dir=d, cfg=cfg, order=order, texts=texts, items=items))

    # ---- run the CLI
    for r in runs:
        rep = os.path.join(r["dir"], ".pyscn", "reports")
        rc, data, err = lib.analyze_json(r["dir"], ["--select", "clones"], target=".") if r["order"] is None else (None, None, None)
        if r["order"] is not None:
            import shutil
            shutil.rmtree(rep, ignore_errors=True)
            rc, out, err = lib.pyscn(["analyze", "--json", "--no-open", "--select", "clones"] + r["order"], r["dir"])
            data = None
            if os.path.isdir(rep):
                fs = sorted(f for f in os.listdir(rep) if f.endswith(".json"))
                if fs:
                    data = json.load(open(os.path.join(rep, fs[-1])))
            # the same project and configuration with the default (discovery) file order
            rc2, data2, err2 = lib.analyze_json(r["dir"], ["--select", "clones"], target=".")
            r["cli_default"] = data2
        r["cli"] = data
        if data is None or not data.get("clone"):
            ck.broken_ties.append("pyscn analyze produced no clone report in %s (rc=%s): %s" % (r["dir"], rc, (err or "")[-300:]))
            r["cli"] = None
            continue
        stats["cli_runs"] += 1
    runs = [r for r in runs if r["cli"]]

    # ---- driver on the same files in the CLI's file order with the echoed request
    dreqs = []
    for r in runs:
        req = r["cli"]["clone"]["request"]
        r["req"] = req
        files = [(p, r["texts"][p]) for p in req["paths"]]
        lsh = []
        if req["lsh_enabled"] != "false":
            lsh = [dict(bands=req["lsh_bands"], rows=req["lsh_rows"], hashes=req["lsh_hashes"], threshold=req["lsh_similarity_threshold"])]
            stats["lsh_cli"] += 1
            stats["lsh_auto_cli"] = stats.get("lsh_auto_cli", 0) + (req["lsh_enabled"] == "auto")
        dreqs.append(cc.driver_req(files, cc.service_cfg(req), lsh=lsh, table="full"))
        # same project, another file order (order invariance of the detector itself)
        perm = list(files)
        rng.shuffle(perm)
        dreqs.append(cc.driver_req(perm, cc.service_cfg(req), table="none"))
    lib.log("cli %.1fs" % (time.time() - t0))
    dres = [cc.norm(x) for x in lib.driver(dreqs, timeout=1800)] if dreqs else []
    lib.log("driver %.1fs" % (time.time() - t0))

    jobs = []
    for ri, r in enumerate(runs):
        res, res2 = dres[2 * ri], dres[2 * ri + 1]
        if "error" in res or "error" in res2:
            ck.broken_ties.append("driver clone_pairs failed: %s" % (res.get("error") or res2.get("error")))
            r["res"] = None
            continue
        r["res"], r["res2"] = res, res2
        lib.log("  run %d: %d fragments, %d cells, gate %s" % (ri, len(res["frags"]), len(res["table"]), res["uses_gate"]))
        req = r["req"]
        frags = res["frags"]
        cands = res["candidates"]
        # candidate ids; extracted fragment i -> candidate id (extraction keeps the order)
        cid, pos = [], 0
        for f in frags:
            while not (cands[pos]["file"] == f["file"] and cands[pos]["start"] == f["start"] and cands[pos]["end"] == f["end"]):
                pos += 1
            cid.append(pos)
            pos += 1
        r["cid"] = cid
        locs = {}
        for i, c in enumerate(cands):
            locs.setdefault((c["file"], c["start"], c["end"]), []).append(i)
        r["dup_locs"] = [k for k, v in locs.items() if len(v) > 1]
        r["loc2cand"] = {k: v[0] for k, v in locs.items()}
        # model terms
        files, trees = cc.Coder(), cc.Coder()
        lsh_res = res["lsh"][0] if res.get("lsh") else None
        byc = {c: i for i, c in enumerate(cid)}
        cterms = []
        for j, c in enumerate(cands):
            if j in byc:
                f = frags[byc[j]]
                cterms.append(cc.coq_frag(j, f, files, trees, f.get("feats") or [], lsh_res["lshfeats"][byc[j]] if lsh_res else []))
            else:
                cterms.append(cc.coq_frag(j, c, files, trees))
        table = {"table": [dict(c, i=cid[c["i"]], j=cid[c["j"]]) for c in res["table"] if c["i"] < c["j"] or len(frags) > 50]}
        mode = 1 if req["lsh_enabled"] == "true" else 2 if req["lsh_enabled"] == "false" else 0
        mc = cc.model_cfg_from_detector(cc.service_cfg(req), req["min_similarity"], req["max_similarity"], req["clone_types"] or [],
                                        use_gate=res["uses_gate"])
        cells, gates = cc.coq_cells(table, mc["t4"])
        sigs = cc.coq_sigs(lsh_res, cc.Coder()) if lsh_res else "[]"
        # the statement skeleton of every file (built by the hook through all five statement lists): the model walk over the
        # lists extractFragmentsRecursive follows must list the candidates ExtractFragments lists, in its order
        r["skel_files"] = [p for p in req["paths"] if (res.get("skeletons") or {}).get(p)]
        body = ("From PV Require Clone.Walk.\n"
                "Definition cands := %s.\nDefinition tabs := Build_tables %s %s %s.\nDefinition c := %s.\n"
                "Eval vm_compute in (run_extract c cands).\n"
                "Eval vm_compute in (run_report tabs c %s %s cands).\n"
                "Eval vm_compute in (run_exhaustive tabs c (Pairs.extract c cands)).\n"
                "Eval vm_compute in (map (Walk.walk clone_walk_fields) %s).\n"
                % (clist(cterms), cells, gates, sigs, cc.coq_cfg(mc), cZ(mode), cZ(req["lsh_auto_threshold"]),
                   clist([skel_term(res["skeletons"][p]) for p in r["skel_files"]])))
        jobs.append(("C08_case_%d" % ri, cc.REQ, body))
        r["job"] = len(jobs) - 1
    try:
        decide_path_runs(ck, path_runs, path_future.result(), stats, jobs, thorough)
    except RuntimeError as e:
        ck.broken_ties.append("driver clone_pairs failed (detection paths): %s" % str(e)[-500:])
    big = big_future.result()
    decide_big_project(ck, big, stats, jobs)
    lib.log("paths + big project %.1fs" % (time.time() - t0))
    model_out = None
    if jobs and not any(f in ("Clone/Pairs.v", "Clone/PairsRun.v") or "Gen/" in f for f in ck.failed_files):
        try:
            model_out = [lib.parse_coq_values(o) for o in lib.coq_eval_many(jobs, workers=12)]
        except Exception as e:
            ck.broken_ties.append("model evaluation failed: %s" % str(e)[-800:])
    if model_out is not None:
        tie_path_runs(ck, path_runs, model_out, stats)
        tie_big_project(ck, big, model_out, stats)
    # the new input classes must have been reached (otherwise the run decides nothing about the reporting threshold / the edit
    # distance limit on the batched path)
    if not big.get("error") and not ck.violations:
        missing = [k for k in ("path_batched_public", "path_near_miss_similarity", "path_near_miss_distance", "big_near_miss_similarity", "big_near_miss_distance",
                               "big_near_miss_cross_batch") if not stats.get(k)]
        if missing:
            ck.broken_ties.append("generator: batched runs with a near miss of the reporting threshold / edit distance limit were not reached: %s" % missing)

    lib.log("model %.1fs" % (time.time() - t0))
    # ---- decide per run
    for ri, r in enumerate(runs):
        if not r.get("res"):
            continue
        res, req, cid = r["res"], r["req"], r["cid"]
        frags, cands = res["frags"], res["candidates"]
        clone = r["cli"]["clone"]
        t = [req["type1_threshold"], req["type2_threshold"], req["type3_threshold"], req["type4_threshold"]]
        thr = req["similarity_threshold"] if req["similarity_threshold"] > 0 else t[3]
        replay = {"kind": "cli", "files": r["texts"], "toml": toml_for(r["cfg"]), "order": r["order"], "request": req}
        if r["dup_locs"]:
            ck.notes.append("two fragment candidates share one location %s" % r["dup_locs"][:2])
        table = {(c["i"], c["j"]): c for c in res["table"]}
        floc = {(f["file"], f["start"], f["end"]): i for i, f in enumerate(frags)}
        pairs = clone["clone_pairs"] or []
        stats["reported_pairs"] += len(pairs)
        seen = {}
        bad = None
        for p in pairs:
            la, lb = loc_of(p["clone1"]), loc_of(p["clone2"])
            s, ty = p["similarity"], p["type"]
            ia, ib = floc.get(la), floc.get(lb)
            if ia is None or ib is None:
                bad = "reported pair %s / %s is not a pair of extracted fragments" % (la, lb)
                break
            fa, fb = frags[ia], frags[ib]
            if s < thr or s < t[3] or s < req["min_similarity"] or s > req["max_similarity"]:
                bad = "reported pair %s/%s has similarity %r outside the reporting range (threshold %r, type4 %r, filter [%r, %r])" % (
                    la, lb, s, thr, t[3], req["min_similarity"], req["max_similarity"])
            elif ty != cc.band_of(s, t):
                bad = "reported pair %s/%s: type %d does not match the band of similarity %r (thresholds %s)" % (la, lb, ty, s, t)
            elif ty not in (req["clone_types"] or []):
                bad = "reported pair %s/%s has type %d which is not enabled (%s)" % (la, lb, ty, req["clone_types"])
            elif min(fa["size"], fb["size"]) < req["min_nodes"] or min(fa["lines"], fb["lines"]) < req["min_lines"]:
                bad = "reported pair %s/%s has a fragment below the minimum size (sizes %d/%d lines %d/%d, min %d nodes %d lines)" % (
                    la, lb, fa["size"], fb["size"], fa["lines"], fb["lines"], req["min_nodes"], req["min_lines"])
            elif cc.overlap(fa, fb):
                bad = "reported pair %s/%s overlaps in one file" % (la, lb)
            elif (ia, ib) in table and (table[(ia, ib)]["sim"] != s or table[(ia, ib)]["dist"] != p["distance"]):
                bad = "reported pair %s/%s: similarity/distance %r/%r differ from the tree comparison %r/%r" % (
                    la, lb, s, p["distance"], table[(ia, ib)]["sim"], table[(ia, ib)]["dist"])
            elif cc.upair(ia, ib) in seen:
                bad = "pair %s/%s reported twice" % (la, lb)
            if bad:
                break
            seen[cc.upair(ia, ib)] = (s, p["distance"], ty)
            if any(abs(s - x) < 1e-9 for x in t + [thr]):
                stats["boundary_thresholds"] += 1
        if bad:
            ck.violation(bad, dict(replay, pairs=pairs), independent=True)
            continue

        # assumptions on the similarity function, tested on the implementation (tie of the Section hypotheses)
        check_similarity_hypotheses(ck, res, replay)

        # verbatim copies are found
        can_expect = 1 in (req["clone_types"] or []) and req["min_similarity"] <= 1.0 <= req["max_similarity"] and len(pairs) < 10000
        # intended verbatim copies have equal trees
        by_start = {(f["file"], f["start"]): i for i, f in enumerate(frags)}
        bases = {it["base"]: it for it in r["items"] if it["relation"] == "base"}
        for it in r["items"]:
            if it["relation"] != "verbatim":
                continue
            a, b = by_start.get((bases[it["base"]]["path"], bases[it["base"]]["start"])), by_start.get((it["path"], it["start"]))
            stats["placements"][it.get("wrap") or "top-level"] = stats["placements"].get(it.get("wrap") or "top-level", 0) + 1
            if a is not None and b is not None and frags[a]["tree"] != frags[b]["tree"]:
                ck.violation("a copy that differs only in comments and blank lines has a different tree (%s vs %s)" % (bases[it["base"]]["name"], it["name"]),
                             dict(replay, frag_a=frags[a], frag_b=frags[b]))
            if a is not None and b is None:
                # The original meets the configured minimum size (it was extracted), so does its copy (same nodes, at least as many
                # lines): the copy is a fragment the property speaks about, but the detector never saw it.
                stats["verbatim_expected"] += 1
                tags = {"kind": "verbatim-not-extracted", "in_handler_or_finally_block": it.get("wrap") in cc.HANDLER_WRAPS}
                what = ("verbatim copy of %s %s (%s:%d, %d lines, Size %d) at %s:%d is never extracted as a fragment (placement: %s), so the pair is not reported" % (
                    it["kind"], it["name"], frags[a]["file"], frags[a]["start"], frags[a]["lines"], frags[a]["size"], it["path"], it["start"],
                    it.get("wrap") or "top level"))
                ck.violation(what, dict(replay, frag_a=frags[a], copy=it, tags=tags))
            elif a is not None and it.get("wrap"):
                stats["nested_copies_extracted"] = stats.get("nested_copies_extracted", 0) + 1
        # every function, class or compound statement of a file - wherever it stands: the hook's own traversal of Children, Body,
        # Orelse, Handlers and Finalbody - is a candidate of the production walk (ExtractFragments without a minimum size)
        for path in req["paths"]:
            sk = (res.get("skeletons") or {}).get(path)
            prod = [(c["start"], c["end"]) for c in cands if c["file"] == path]
            spec = skel_candidates(sk)
            stats["skeleton_candidates"] = stats.get("skeleton_candidates", 0) + len(spec)
            lost = sorted(set(spec) - set(prod))
            if lost:
                stats["candidates_not_visited"] = stats.get("candidates_not_visited", 0) + len(lost)
            if lost and stats.get("not_visited_reported", 0) < 4:      # a few concrete witnesses are enough
                stats["not_visited_reported"] = stats.get("not_visited_reported", 0) + 1
                ck.violation("%s lines %d-%d is a function, class or compound statement of the parsed file but the fragment walk never visits it "
                             "(%d of %d candidate nodes of the file are not visited), so no copy of it can be reported" % (
                                 path, lost[0][0], lost[0][1], len(lost), len(spec)),
                             dict(replay, file=path, not_visited=lost[:10], tags={"kind": "candidate-not-visited"}))
            elif sorted(spec) != sorted(prod):
                ck.broken_ties.append("ExtractFragments lists candidates the statement skeleton of %s does not have: %s" % (path, sorted(set(prod) - set(spec))[:5]))
        if can_expect:
            for i in range(len(frags)):
                for j in range(i + 1, len(frags)):
                    if frags[i]["tree"] != frags[j]["tree"] or cc.overlap(frags[i], frags[j]):
                        continue
                    stats["verbatim_expected"] += 1
                    got = seen.get((i, j))
                    if got == (1.0, 0.0, 1):
                        stats["verbatim_found"] += 1
                        continue
                    tags = {"kind": "verbatim-missed", "line_count_prefilter_rejects": cc.line_prefilter_rejects(frags[i]["lines"], frags[j]["lines"]),
                            "reported_otherwise": got is not None}
                    e = ck.match_known(tags)
                    what = ("verbatim copy not reported as (1.0, 0, Type-1): %s:%d-%d (%d lines) vs %s:%d-%d (%d lines), got %s" % (
                        frags[i]["file"], frags[i]["start"], frags[i]["end"], frags[i]["lines"],
                        frags[j]["file"], frags[j]["start"], frags[j]["end"], frags[j]["lines"], got))
                    if e:
                        stats["verbatim_missed_f19"] += 1
                        ck.known_finding(e)
                        if len(ck.samples) < 6:
                            ck.samples.append({"known_finding": e["id"], "what": what})
                    else:
                        ck.violation(what, dict(replay, frag_a=frags[i], frag_b=frags[j], tags=tags))

        # order invariance (detector level): other file order, same set of unordered location pairs
        res2 = r["res2"]
        stats["order_runs"] += 1

        def locset(rs, ps):
            out = set()
            for p in ps:
                a, b = rs["frags"][p["i"]], rs["frags"][p["j"]]
                out.add((tuple(sorted([(a["file"], a["start"], a["end"]), (b["file"], b["start"], b["end"])])), p["sim"], p["type"]))
            return out
        if len(res["detect"]) < 10000 and locset(res, res["detect"]) != locset(res2, res2["detect"]):
            d1, d2 = locset(res, res["detect"]), locset(res2, res2["detect"])
            ck.violation("the set of detected pairs depends on the file order: only in order A %s, only in order B %s" % (
                sorted(d1 - d2)[:3], sorted(d2 - d1)[:3]), dict(replay, order_a=[f["file"] for f in res["frags"]], order_b=[f["file"] for f in res2["frags"]]), independent=True)

        if r.get("cli_default") and r["cli_default"].get("clone"):
            def cliset(c):
                return {(tuple(sorted([loc_of(p["clone1"]), loc_of(p["clone2"])])), p["similarity"], p["distance"], p["type"]) for p in (c["clone_pairs"] or [])}
            a, b = cliset(clone), cliset(r["cli_default"]["clone"])
            stats["order_runs"] += 1
            if a != b and len(pairs) < 10000:
                ck.violation("pyscn analyze reports a different set of clone pairs for file order %s than for the default order: only permuted %s, only default %s"
                             % (r["order"], sorted(a - b)[:2], sorted(b - a)[:2]), replay, independent=True)

        # tie: implementation = model
        if model_out is not None and "job" in r:
            mv = model_out[r["job"]]
            stats["model_cases"] += 1
            m_extract, m_report, m_exh = mv[0], cc.pairs_of_model(mv[1]), cc.pairs_of_model(mv[2])
            if list(m_extract) != cid:
                ck.broken_ties.append("model extract differs from ExtractFragments: model %s impl %s (min_lines %d min_nodes %d)" % (
                    m_extract[:20], cid[:20], req["min_lines"], req["min_nodes"]))
            stats["extract_cases"] += 1
            for path, mw in zip(r["skel_files"], mv[3] if len(mv) > 3 else []):
                prod = [(c["start"], c["end"]) for c in cands if c["file"] == path]
                stats["walk_cases"] = stats.get("walk_cases", 0) + 1
                if [tuple(x) for x in mw] != prod:
                    ck.broken_ties.append("model walk (Clone/Walk.v over clone_walk_fields) differs from the candidates of ExtractFragments in %s: model %s impl %s" % (
                        path, [tuple(x) for x in mw][:12], prod[:12]))
            impl_exh = [(cid[p["i"]], cid[p["j"]], p["type"]) for p in res["exh_raw"]]
            if m_exh != impl_exh:
                ck.broken_ties.append("model exhaustive loop differs from detectClonePairsStandard: model-only %s impl-only %s" % (
                    sorted(set(m_exh) - set(impl_exh))[:3], sorted(set(impl_exh) - set(m_exh))[:3]))
            impl_rep = {cc.upair(cid[a], cid[b], ty) for (a, b), (s, dd, ty) in seen.items()}
            mod_rep = {cc.upair(a, b, ty) for a, b, ty in m_report}
            if impl_rep != mod_rep:
                ck.broken_ties.append("model report differs from pyscn analyze: model-only %s impl-only %s (request %s)" % (
                    sorted(mod_rep - impl_rep)[:3], sorted(impl_rep - mod_rep)[:3], {k: req[k] for k in req if k != "paths"}))
        if len(ck.samples) < 3:
            ck.samples.append({"files": sorted(r["texts"]), "request": {k: req[k] for k in req if k not in ("paths",)},
                               "pairs": [(loc_of(p["clone1"]), loc_of(p["clone2"]), p["similarity"], p["type"]) for p in pairs[:4]]})

    twin_section(ck, rng, thorough, stats, base)
    lib.log("twins %.1fs" % (time.time() - t0))
    validation_section(ck, cc.side_rng(rng), thorough, stats, base)
    lib.log("validation %.1fs" % (time.time() - t0))

    ck.cov.update({
        "evaluations": stats["cli_runs"] + stats["order_runs"] + stats.get("twin_order_runs", 0) + stats.get("twin_cli_runs", 0) +
                       8 * stats.get("path_runs", 0) + 2 * bool(stats.get("big_fragments")),
        "distinct_nontrivial": stats["reported_pairs"] + stats.get("path_pairs", 0) + stats.get("big_reported_pairs", 0),
        "rule": "generated projects (fragment library: functions/classes x verbatim+noise / renamed / edited / unrelated x same file, other file, "
                "other directory) x configurations accepted by Validate (thresholds on observed similarities +-2^-40, min sizes at fragment sizes +-1, "
                "service filter ranges, enabled type subsets, classifier gate on/off, LSH on/off) x file orders; one verbatim copy per project nested in a "
                "compound statement (except / except* / second handler / finally, handler in finally and finally in handler, handler of a try inside "
                "with / def / else of for; else of try, try body, with, else of if) and, per file, every candidate node of the statement skeleton "
                "against the production walk; plus related-construct twins: for every "
                "entry of PythonCostModel.areRelatedNodeTypes (read from apted_cost.go: def/async def, for/async for, with/async with, BinOp/UnaryOp, "
                "List/Tuple, ListComp/GeneratorExp, If/IfExp) and for same-category kinds a fragment and its twin differing only in those node types "
                "(1-4 occurrences): sim/dist/gate in both orientations under the CLI's cost model and the python-boilerplate / ignore / default / "
                "weighted models, detector and `pyscn analyze` in both file orders with the Type-2 edge or the reporting threshold ON the observed "
                "similarity (+-2^-40) and with the built-in defaults; plus every detection path with NON-default reporting limits: detector runs "
                "through the hook on the generated projects with BatchSizeThreshold 1-3 (the public entry point batches), reporting threshold ON / 2^-40 next "
                "to an observed similarity above Type-4 and MaxEditDistance ON / next to the observed distance of a pair above that threshold (the first "
                "runs keep a near miss of each kind), classifier gate on one run in four; every clause of 'justified' (threshold, Type-4, edit "
                "distance limit, band, minimum sizes, no overlap, similarity/distance = the tree comparison's, no pair twice) and 'verbatim copies "
                "are reported' decided on the output of the standard double loop, the public entry point, the batched loop with batch sizes 1 / 3 / 7 "
                "and the LSH path (two settings), model = implementation per path; and one project of families (base, verbatim, renamed, chain of edits) "
                "with more than 100 fragments through `pyscn analyze` (batched, batch size 100, family members on both sides of the boundary): a lenient "
                "run observes similarities and distances, the run under test has the type thresholds on observed similarities, the reporting threshold "
                "(similarity_threshold in .pyscn.toml or --clone-threshold) and max_edit_distance on / next to observed values with near misses of both "
                "kinds on both sides of the batch boundary, service filter and enabled types varied; every reported pair decided by all clauses, "
                "verbatim copies expected, model report = reported set; the run fails if a near-miss class was not reached; "
                "distinct = reported pairs checked",
        "input_distribution": stats,
        "disagreements_checked": len(ck.violations) + len(ck.broken_ties),
    })
    ck.trusted += [
        "Coq 8.16.1 kernel, vm_compute for model evaluation",
        "translator /verif/translator gen_clone.go (comparison operators, literals and defaults of the clone pipeline)",
        "Section hypotheses of Props/C08.v about the similarity function (APTED, property C07): sim a b = sim b a, dist a b = dist b a, "
        "gate a b = gate b a, equal trees => sim 1, dist 0, gate passes; tested on every fragment pair of every run (both orientations)",
        "fragment locations (file, start, end) are unique among extracted fragments (checked per run)",
        "float64 comparisons sizeDiff/avg > 0.5 and jaccard < 0.10 modelled exactly over Q (no rounding boundary reachable for fragment sizes < 2^52)",
        "sort.Slice is unstable: with more than MaxClonePairs qualifying pairs the kept set is not determined; model and theorems cover the untruncated case exactly",
        "hand-written model Clone/Pairs.v of clone_detector.go / clone_service.go / lsh_index.go",
        "detection-path runs and the project with more than 100 fragments: the similarity table given to the model (and the clause 'similarity/"
        "distance are the tree comparison's') is what a lenient run of the same implementation on the same files reported (probe run of the hook / "
        "`pyscn analyze` with reporting threshold = Type-4 = 0.5), mirrored to both orientations; a pair the lenient run does not report has no cell",
        "fragment candidates: model Clone/Walk.v over the statement lists read from the `range node.<list>` loops of extractFragmentsRecursive / "
        "ConvertAST (translator); compared per file with ExtractFragments (no minimum size) on the statement skeleton the hook builds with "
        "its own traversal of Children, Body, Orelse, Handlers, Finalbody; isFragmentCandidate (the node kinds) is used as is",
    ]
    ck.finish(assumptions=["fewer than MaxClonePairs (10000) qualifying pairs (no truncation) for verbatim/order clauses",
                           "tree-sitter parsing and tree conversion are exercised end-to-end, not modelled"])
