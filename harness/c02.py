"""C02 — dead-code completeness for structurally unreachable statements."""
import ast as pyast
import os

import lib
import pygen
import cfgcommon as cc

# terminators everywhere: the generator's TERMS weights are raised through more/longer blocks
PROFILE = dict(max_depth=3, max_len=5, n_funcs=4)


def dup_module(rng):
    """Two definitions with one qualified name (property getter/setter, conditional redefinition): F3."""
    a = [('simple', 0), ('return', 0), ('simple', 0)]
    b = [('simple', 0)]
    cls = ('class', 0, 900, [('def', 0, 901, list(a)), ('def', 0, 901, list(b))])
    f1 = ('def', 0, 902, [('raise', 0), ('simple', 0)])
    f2 = ('def', 0, 902, [('simple', 0)])
    return [cls, f1, f2]


def blocks_of(body):
    """Every statement list of one function (not descending into nested defs)."""
    yield body
    for st in body:
        if st[0] == 'def':
            continue
        for _, sb in pygen.sub_blocks(st):
            for b in blocks_of(sb):
                yield b


def main(tier):
    ck = lib.Check("C02", tier)
    ck.prepare("C02.v")
    rng = ck.rng
    thorough = tier == "thorough"
    n_mod = 500 if thorough else 70
    mods = cc.gen_modules(rng, n_mod, PROFILE)
    mods += cc.gen_modules(rng, n_mod // 3, dict(max_depth=4, max_len=4, n_funcs=2))
    # restricted profiles put terminators at every position of each construct on its own
    for cons in (['simple', 'return', 'if'], ['simple', 'break', 'continue', 'while', 'for', 'if'], ['simple', 'raise', 'try', 'return'],
                 ['simple', 'return', 'with', 'match', 'def', 'class']):
        mods += cc.gen_modules(rng, max(4, n_mod // 12), dict(max_depth=3, max_len=4, n_funcs=3, constructs=cons))
    ndup = 3
    for _ in range(ndup):
        ast, lines = pygen.layout(dup_module(rng))
        mods.append({"ast": ast, "lines": lines, "dup": True})
    # small-scope exhaustion: every legal body with <= 2 (thorough: 3) statement nodes, plain and wrapped in a loop with else
    small = pygen.modules_from_bodies(pygen.enum_function_bodies(3 if thorough else 2))
    mods += small
    # frame compositions: every nesting (depth <= 2; depth 3 sampled, thorough: all) of try/finally, try/except(/else/finally),
    # loops with and without a terminating else, with, if/elif/else, match around each terminator, code after every frame
    fb2, _ = pygen.enum_frame_bodies(2)
    fb3, _ = pygen.enum_frame_bodies(3, rng, None if thorough else 700)
    mods += pygen.modules_from_bodies(fb2 + fb3[len(fb2) if thorough else 0:])
    mods += pygen.modules_from_bodies(pygen.arm_chain_bodies())
    # dead tails that END with a multi-line statement: nested def / async def / decorated def / class with methods (one statement of
    # the enclosing function, its body is in no other block of that function) and if/for/while/with/try/match, alone or after a
    # simple statement / another def, after each terminator kind, at every position, in functions, methods, async and nested functions
    tails = pygen.dead_tail_modules(sample=None if thorough else 520, rng=rng)
    mods += tails
    # async defs, methods and decorated definitions (the files of this check are not executed): every third module
    for m in mods[::3]:
        if not m.get("dup") and "dead_tail" not in m:
            m["ast"], m["lines"] = pygen.layout(m["ast"], deco_rng=rng, ret_comps=True)
    d = lib.fresh_dir("c02")
    cc.write_modules(mods, d)
    # default severity: no --min-severity flag
    rc, data, err = lib.analyze_json(d, ["--select", "deadcode"], timeout=600)
    if data is None:
        ck.broken_ties.append("pyscn produced no report (rc=%s): %s" % (rc, err[-500:]))
        ck.finish()
    cc.index_report(data, mods)
    model_ok = False
    try:
        model_ok = cc.coq_analyse(mods, "C02")
    except Exception as e:
        ck.broken_ties.append("model evaluation failed: " + str(e)[-1500:])
    if not model_ok:
        ck.finish()

    stats = dict(functions=0, must_dead=0, nested_defs=0, methods=0, positions={}, functions_with_must_dead=0,
                 dead_definitions=0, dead_definition_lines=0, dead_definitions_closing_their_block=0, dead_multiline_last=0,
                 dead_tail_cases=sum(len(m["dead_tail"]) for m in tails), span_source={"python_ast": 0, "generator": 0, "disagree": 0})
    nviol = tie = 0
    for m in mods:
        defs = cc.def_table(m)
        # extent of every definition: python3 ast end_lineno of the printed file, the generator's own span knowledge otherwise
        try:
            ends = {n.lineno: n.end_lineno for n in pyast.walk(pyast.parse("\n".join(m["lines"])))
                    if isinstance(n, (pyast.FunctionDef, pyast.AsyncFunctionDef, pyast.ClassDef))}
        except SyntaxError:
            ends = None
        for name, lst in defs.items():
            dup = len(lst) > 1
            for idx, (s, path) in enumerate(lst):
                body, k0 = s[3], s[1]
                stats["functions"] += 1
                stats["nested_defs"] += len(path) > 1
                rec = [r for r in m["model"] if r["k"] == k0][0]
                ranges = [r for r in m["impl_dead"].get(name, []) if r[2] in ("critical", "warning")]
                nomark, elif_ids = cc.unobservable_ids(body)
                must = sorted(rec["must_dead"] - elif_ids)
                stats["must_dead"] += len(must)
                stats["functions_with_must_dead"] += bool(must)
                # where the must-be-dead statements sit
                for kind, stl in ((k, b) for st in pygen.own_statements(body) for k, b in pygen.sub_blocks(st)):
                    if any(x[1] in rec["must_dead"] for x in stl):
                        stats["positions"][kind] = stats["positions"].get(kind, 0) + 1
                missing = [k for k in must if not cc.covered(k, ranges)]
                # a dead nested definition is ONE statement of this function: every line of its extent has to be inside a finding
                # (its body is reachable in its own CFG, nothing else reports those lines)
                mustset = set(must)
                for blk in blocks_of(body):
                    if blk and blk[-1][1] in mustset and pygen.end_line(blk[-1]) > blk[-1][1]:
                        stats["dead_multiline_last"] += 1
                        stats["dead_definitions_closing_their_block"] += blk[-1][0] in ('def', 'class')
                for st in pygen.own_statements(body):
                    if st[0] in ('def', 'class') and st[1] in mustset:
                        gen_end = pygen.end_line(st)
                        end = gen_end
                        if ends is not None and st[1] in ends:
                            end = ends[st[1]]
                            stats["span_source"]["python_ast"] += 1
                            stats["span_source"]["disagree"] += end != gen_end
                        else:
                            stats["span_source"]["generator"] += 1
                        stats["dead_definitions"] += 1
                        stats["dead_definition_lines"] += end - st[1] + 1
                        missing += [ln for ln in range(st[1] + 1, end + 1) if not cc.covered(ln, ranges) and ln not in missing]
                missing.sort()
                if missing:
                    tags = {"class": "duplicate-qualified-name"} if dup else {"class": "other"}
                    kf = ck.match_known(tags)
                    if kf is not None and dup:
                        ck.known_finding(kf)
                    elif nviol < 3:
                        nviol += 1
                        ck.violation("line %d of function %s belongs to a statement that follows a terminator (or an if whose arms all "
                                     "terminate) but no dead-code finding at default severity covers it; findings: %s"
                                     % (missing[0], name, ranges),
                                     {"kind": "missed-dead-code", "file": m.get("path"), "source": m["lines"], "function": name,
                                      "missing_lines": missing, "findings": m["impl_dead"].get(name, [])})
                # tie: spec must_dead is contained in the model's dead set (also a theorem), model dead = impl coverage
                if not must or dup:
                    continue
                for k in must:
                    if k not in rec["dead"]:
                        tie += 1
                        ck.broken_ties.append("model tie: must-be-dead line %d of %s not dead in Flow.v" % (k, name))
    ck.samples = [{"file": mods[0]["path"], "source_head": mods[0]["lines"][:30]}]
    ck.cov.update({
        "evaluations": stats["must_dead"], "distinct_nontrivial": stats["functions_with_must_dead"],
        "rule": "one evaluation = one must-be-dead statement (spec must_dead_block evaluated in Coq) checked against pyscn's findings at default "
                "severity for the function of that qualified name: its first line and, for a dead nested def / async def / class (one statement "
                "of the enclosing function), EVERY line up to its last line (python3 ast end_lineno) must lie inside a finding's line range; "
                "compound statements are decided through each statement nested in them; dead tails ending in a multi-line definition or "
                "compound statement are generated for every terminator kind x tail kind x context x position (input_distribution.dead_tail_cases); "
                "distinct = functions containing at least one such statement",
        "input_distribution": stats, "disagreements_checked": nviol + tie, "modules": len(mods),
    })
    ck.trusted += ["Coq 8.16.1 kernel; vm_compute for spec/model evaluation",
                   "hand-written model Cfg/Flow.v and spec Cfg/FlowSpec.v; harness/pygen.py layout"]
    ck.finish(assumptions=["must-be-dead = statements after a return/raise/break/continue in the same list or after an if/elif/else all of whose arms contain such a statement, with everything nested in them"])
