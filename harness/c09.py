"""C09 — LSH and batching never invent pairs and never lose exact duplicates."""
import json
import os

import lib
import clonecommon as cc
from lib import cZ, cN, cQ, clist

BATCH_SIZES = [1, 2, 3, 7, 50, 100]


def rand_lsh(rng):
    k = rng.random()
    if k < 0.15:   # rows > hashes (finding F23 class)
        h = rng.choice([8, 16, 64, 128])
        return dict(bands=rng.choice([1, 4, 32]), rows=rng.choice([h + 1, 2 * h, 200, 1000]), hashes=h, threshold=rng.choice([0.0, 0.5, 1.0]))
    if k < 0.25:   # defaults through zero / negative values
        return dict(bands=rng.choice([0, -1, 32]), rows=rng.choice([0, -3, 4]), hashes=rng.choice([0, -1, 128]), threshold=rng.choice([-0.5, 0.5, 1.5]))
    return dict(bands=rng.choice([1, 2, 4, 16, 32, 64, 200]), rows=rng.choice([1, 2, 3, 4, 8, 16]), hashes=rng.choice([4, 8, 32, 64, 100, 128]),
                threshold=rng.choice([0.0, 0.1, 0.3, 0.5, 0.8, 1.0]))


EPS40 = 2.0 ** -40


def twin_threshold_cfgs(xt, sims, dists):
    """Type thresholds ON the observed similarities of the twin pairs (some 2^-40 next to them): the distinct values in descending
    order, four per configuration (t1 > t2 > t3 > t4; padded below the lowest one).  Every observed value is a band edge in exactly
    one configuration and stays at or above Type-4 there (the lowest edge is never moved above the value), so the pair is reported
    by the unbatched loop and any change of its similarity in another comparison order changes its type or drops it.  The
    reporting threshold is unset or ON the Type-4 edge, the maximum edit distance unset or ON / just above the largest observed
    distance."""
    vals = sorted({s for s in sims if 0.2 < s < 1.0}, reverse=True)
    dmax = max(dists) if dists else 0.0
    out = []
    for c in range(0, len(vals), 4):
        chunk = vals[c:c + 4]
        while len(chunk) < 4:
            chunk.append(chunk[-1] - 0.03)
        t = [chunk[k] + xt.choice([0.0, 0.0, EPS40, -EPS40]) for k in range(3)] + [chunk[3] + xt.choice([0.0, 0.0, -EPS40])]
        if not (1.0 >= t[0] > t[1] > t[2] > t[3] > 0.0):
            t = chunk
        out.append(dict(Type1Threshold=t[0], Type2Threshold=t[1], Type3Threshold=t[2], Type4Threshold=t[3],
                        SimilarityThreshold=xt.choice([0, 0, t[3]]), MaxEditDistance=xt.choice([0, 0, dmax, dmax + EPS40])))
    return out


def pset(ps, oriented=False):
    if oriented:
        return {(p["i"], p["j"], p["sim"], p["dist"], p["type"]) for p in ps}
    return {(min(p["i"], p["j"]), max(p["i"], p["j"]), p["sim"], p["dist"], p["type"]) for p in ps}


def main(tier):
    ck = lib.Check("C09", tier)
    # every decision of this check compares two outputs of the implementation (LSH vs exhaustive, batched vs unbatched, one argument order vs the other): none uses the regenerated model, so a translator
    # problem does not demote them to unconfirmed disagreements (lib.Check.violation, independent=True)
    _violation = ck.violation
    ck.violation = lambda what, replay, no_input=False, independent=True: _violation(what, replay, no_input=no_input, independent=independent)
    ck.prepare("C09.v")
    rng = ck.rng
    thorough = tier == "thorough"
    n_sets = 60 if thorough else 8
    stats = dict(fragment_sets=0, fragments_min=10 ** 9, fragments_max=0, lsh_runs=0, lsh_pairs=0, identical_pairs_checked=0,
                 rows_gt_hashes_runs=0, batch_runs=0, truncated_runs=0, model_lsh=0, model_batch=0, bandkey_fragments=0,
                 exhaustive_pairs=0, cli_lsh_runs=0, big_sets=0, ratio_sets=0, tiny_sets=0, prefilter_pairs_both_orders=0, prefilter_classes={},
                 ratio_pairs_by_batch={}, model_prefilter_cells=0, lsh_fallback_runs=0, docstring_copies={}, twin_sets=0, twin_pairs_decided=0,
                 twin_pairs_by_batch={}, twin_lsh_pairs=0)
    if not ck.go_ok:
        ck.finish()
    import time
    t0 = time.time()

    def make_set(big, rng=rng):
        texts, items = cc.gen_project(rng, n_bases=4 if big else rng.randint(2, 3), max_items=10 if big else rng.choice([4, 5, 6]), doc_p=0.4, docedit_p=0.6)
        cfg = dict(MinLines=3 if big else rng.choice([4, 5, 6]), MinNodes=4 if big else rng.choice([6, 8, 10]),
                   MaxEditDistance=rng.choice([0, 0, 50.0, 3.0]), ReduceBoilerplateSimilarity=rng.random() < 0.5, BoilerplateMultiplier=0.1,
                   SkipDocstrings=True, SimilarityThreshold=rng.choice([0, 0.65, 0.8]),
                   Type1Threshold=rng.choice([0.98, 0.95, 0.85]), Type2Threshold=0.75, Type3Threshold=0.7, Type4Threshold=rng.choice([0.65, 0.5]),
                   MaxClonePairs=10000 if (big or rng.random() < 0.75) else rng.choice([1, 2, 3, 5]),
                   BatchSizeThreshold=50 if big else rng.choice([50, 3, 2, 1000]), BatchSizeLarge=rng.choice([100, 7, 0]), BatchSizeSmall=rng.choice([50, 2, 0]),
                   LargeProjectSize=rng.choice([500, 10, 0]))
        files = sorted(texts.items())
        rng.shuffle(files)
        if big:
            # members of the size-ratio family more than 50 positions apart: (2,5) Size 5/8 inside (1.5, 5/3), smaller first;
            # (6,2) Size 9/5 inside (5/3, 2), larger first -- in different batches for every batch size the public entry point picks
            fam = lambda ks: "\n".join(["import os", ""] + sum([cc.try_function("load%d" % k, k) + ["", ""] for k in ks], [])) + "\n"
            files = [("ratio_front.py", fam([2, 6]))] + files + [("ratio_tail.py", fam([5, 2]))]
            texts = dict(files)
        return dict(texts=texts, files=files, cfg=cfg, lsh=[rand_lsh(rng) for _ in range(6 if thorough else 4)], big=big, kind="big" if big else "project",
                    items=items)

    def make_ratio_set(k):
        """The size-ratio / line-ratio lattice (clonecommon.gen_ratio_project) under default-like thresholds."""
        files, meta = cc.gen_ratio_project(xr, pads=(k % 2 == 0), fillers=k % 3, per_file=None if k else 1)
        # 50 and 100 exceed the fragment count (one batch = the unbatched loop, exercised by the other sets)
        batch_sizes = [1, 2, 3, 7]
        cfg = dict(MinLines=xr.choice([3, 5]), MinNodes=xr.choice([4, 5]), MaxEditDistance=xr.choice([0, 0, 50.0]),
                   ReduceBoilerplateSimilarity=xr.random() < 0.5, BoilerplateMultiplier=0.1, SkipDocstrings=True,
                   SimilarityThreshold=xr.choice([0, 0.65]), Type1Threshold=xr.choice([0.98, 0.85]), Type2Threshold=0.75, Type3Threshold=0.7,
                   Type4Threshold=xr.choice([0.65, 0.5]), MaxClonePairs=10000, BatchSizeThreshold=xr.choice([50, 3, 2]),
                   BatchSizeLarge=xr.choice([100, 7, 0]), BatchSizeSmall=xr.choice([50, 2, 0]), LargeProjectSize=xr.choice([500, 10, 0]))
        # hashes 100, threshold 0.8 / 0.1: float64(80)/float64(100) is the float64 0.8 itself (clonecommon.lsh_threshold_for_model)
        fixed = [dict(bands=16, rows=2, hashes=100, threshold=0.8), dict(bands=50, rows=1, hashes=100, threshold=0.1)][k % 2]
        return dict(texts=dict(files), files=files, cfg=cfg, lsh=[fixed] + [rand_lsh(xr) for _ in range(3 if thorough else 1)], big=False, kind="ratio", meta=meta,
                    batch_sizes=batch_sizes)

    def make_tiny_set(kind):
        """one / none: 1 or 0 fragments -- DetectClonesWithLSH falls back to the standard path (clone_detector.go:655);
        limit0: two identical fragments with MaxClonePairs = 0 (the batch loop's own default applies, the final limit keeps nothing);
        micro: compound statements of 2-3 nodes, fewer labels than the k-gram width of the feature extractor (ast_features.go:150).
        The straight-line function has 17 assignments (node-type bin '16+', ast_features.go:218)."""
        cfg = dict(MinLines=3, MinNodes=9, MaxEditDistance=0, SkipDocstrings=True, SimilarityThreshold=0, Type1Threshold=0.85, Type2Threshold=0.75,
                   Type3Threshold=0.7, Type4Threshold=0.65, MaxClonePairs=10000, BatchSizeThreshold=50, BatchSizeLarge=0, BatchSizeSmall=0, LargeProjectSize=0)
        fn = "import os\n\n" + "\n".join(cc.straight_function("only", 17)) + "\n"
        if kind == "one":
            files = [("only.py", fn)]
        elif kind == "none":
            files = [("only.py", "import os\n\nvalue = 1\n")]
        elif kind == "limit0":
            files = [("only.py", fn), ("pkg/again.py", fn)]
            cfg["MaxClonePairs"] = 0
        else:
            micro = "import os\n\nwhile os.flag:\n    pass\n\nif os.flag:\n    pass\n\nfor item in os.items:\n    pass\n"
            files = [("m1.py", micro), ("m2.py", micro)]
            cfg.update(MinLines=1, MinNodes=1)
        return dict(texts=dict(files), files=files, cfg=cfg, lsh=[rand_lsh(xr) for _ in range(2)], big=False, kind="tiny", batch_sizes=[1, 2, 100])

    n_big = 8 if thorough else 1
    # big sets: 51..64 fragments so that the public entry point batches by itself (n > BatchSizeThreshold = 50)
    cands = [make_set(True) for _ in range(5 * n_big)]
    xr0 = cc.side_rng(rng)
    cands += [make_set(True, xr0) for _ in range(3 * n_big)]    # more candidates for the 51..70 window, from a side generator
    # fragment counts: one request per file (extraction is per file; this keeps the probe's pair comparisons inside single files)
    preqs = [(ci, cc.driver_req([f], s["cfg"], table="none")) for ci, s in enumerate(cands) for f in s["files"]]
    pres = [cc.norm(x) for x in lib.driver([r for _, r in preqs], timeout=1800)]
    probe = [dict(frags=[]) for _ in cands]
    for (ci, _), r in zip(preqs, pres):
        if "error" in r:
            probe[ci]["error"] = r["error"]
        else:
            probe[ci]["frags"] += r["frags"]
    sized = sorted((((0 if 51 <= len(r.get("frags", [])) <= 70 else 1), abs(len(r.get("frags", [])) - 56), i) for i, r in enumerate(probe) if "error" not in r))
    sets = [cands[i] for _, _, i in sized[:n_big]]
    sets += [make_set(False) for _ in range(n_sets - n_big)]
    # additions draw from a side generator: the sets above stay what they were for a given VERIF_SEED
    xr = cc.side_rng(rng)
    n_ratio = 6 if thorough else 2
    sets += [make_ratio_set(k) for k in range(n_ratio)]
    sets += [make_tiny_set(k) for k in ("one", "none", "limit0", "micro")]

    # ---- related-construct twins (every entry of areRelatedNodeTypes, read from apted_cost.go, plus one same-category kind) on both
    # sides of batch boundaries, in both source orders; thresholds on the similarities a lenient probe run observed.  Drawn from a
    # further side generator: the sets above stay what they were.
    xt = cc.side_rng(xr)
    related = cc.related_pairs_from_source(lib.REPO)
    if related is None:
        ck.broken_ties.append("relatedPairs table of PythonCostModel.areRelatedNodeTypes not found in apted_cost.go")
        related = list(cc.RELATED_TO_KIND)
    twin_kinds = []
    for pr in related:
        k = cc.RELATED_TO_KIND.get(tuple(pr)) or cc.RELATED_TO_KIND.get(tuple(reversed(pr)))
        if k is None:
            ck.broken_ties.append("areRelatedNodeTypes lists %s which the twin library does not cover" % (pr,))
        elif k not in twin_kinds:
            twin_kinds.append(k)
    stats["twin_related_kinds"] = list(twin_kinds)
    plans = []
    for rep in range(3 if thorough else 1):
        for layout in ("spread", "adjacent"):
            ks = twin_kinds + [xt.choice(["setlist", "setcomp", "whilefor"])]
            xt.shuffle(ks)
            # four kinds per set: four observed similarities = the four type thresholds of one configuration
            for g in range(0, len(ks), 4):
                files, meta = cc.gen_twin_batches(xt, ks[g:g + 4], layout, fillers=0)
                base_cfg = dict(MinLines=5, MinNodes=5, SkipDocstrings=True, MaxClonePairs=10000, CostModelType=xt.choice(["", "python", "weighted"]),
                                BatchSizeThreshold=xt.choice([2, 3]), BatchSizeLarge=xt.choice([7, 2, 3, 0]), BatchSizeSmall=xt.choice([2, 3, 50, 0]),
                                LargeProjectSize=xt.choice([500, 10, 0]))
                plans.append(dict(files=files, meta=meta, layout=layout, cfg=base_cfg))

    def run_twin_sets():
        """Probe (lenient thresholds), then the sets with thresholds on the observed similarities; runs beside the main driver call."""
        lenient = dict(Type1Threshold=0.99, Type2Threshold=0.98, Type3Threshold=0.97, Type4Threshold=0.05, SimilarityThreshold=0.05, MaxEditDistance=0)
        tpres = [cc.norm(x) for x in lib.driver([cc.driver_req(pl["files"], dict(pl["cfg"], **lenient), table="none") for pl in plans], timeout=900)]
        tsets = []
        for pl, pr in zip(plans, tpres):
            if "error" in pr or pr.get("parse_errors"):
                ck.broken_ties.append("driver probe of the twin set failed: %s" % (pr.get("error") or pr.get("parse_errors")))
                continue
            pos = {(f["file"], f["start"]): i for i, f in enumerate(pr["frags"])}
            seen = {(p["i"], p["j"]): p for p in pr["exh_raw"]}
            sims, dists = [], []
            for k, m in pl["meta"].items():
                ia, ib, ic = (pos.get((m[r], m["start"])) for r in "ABC")
                for i, j in ((ia, ib), (ib, ic)):
                    p = None if i is None or j is None else seen.get((min(i, j), max(i, j)))
                    if p is None:
                        if k in twin_kinds:
                            ck.broken_ties.append("generator: the %s twins (x%d, %d filler statements) are not a pair the unbatched comparison reports at Type-4 0.05"
                                                  % (k, m["occ"], m["n_fill"]))
                        continue
                    sims.append(p["sim"])
                    dists.append(p["dist"])
            for tc in twin_threshold_cfgs(xt, sims, dists):
                tsets.append(dict(texts=dict(pl["files"]), files=pl["files"], cfg=dict(pl["cfg"], **tc), big=False, kind="twins", meta=pl["meta"], layout=pl["layout"],
                                  lsh=[dict(bands=64, rows=1, hashes=64, threshold=0.0), rand_lsh(xt)], batch_sizes=[1, 2, 3, 7]))
        treqs = [cc.driver_req(s["files"], s["cfg"], batch_sizes=s["batch_sizes"], lsh=s["lsh"], table="upper" if i % 2 else "full") for i, s in enumerate(tsets)]
        tres = [cc.norm(x) for x in lib.driver(treqs, timeout=1800)] if treqs else []
        lib.log("twin sets %.1fs" % (time.time() - t0))
        return tsets, treqs, tres

    import concurrent.futures
    twin_future = concurrent.futures.ThreadPoolExecutor(max_workers=1).submit(run_twin_sets)
    reqs = [cc.driver_req(s["files"], s["cfg"], batch_sizes=[1, 7, 100] if s["big"] else s.get("batch_sizes", BATCH_SIZES), lsh=s["lsh"][:2] if s["big"] else s["lsh"],
                          table="upper" if (s["big"] or i % 2) else "full") for i, s in enumerate(sets)]
    results = [cc.norm(x) for x in lib.driver(reqs, timeout=1800)]
    tsets, treqs, tres = twin_future.result()
    sets, reqs, results = sets + tsets, reqs + treqs, results + tres
    lib.log("driver %.1fs" % (time.time() - t0))

    jobs = []
    for si, (s, res) in enumerate(zip(sets, results)):
        if "error" in res:
            ck.broken_ties.append("driver clone_pairs failed: %s" % res["error"])
            s["res"] = None
            continue
        s["res"] = res
        frags = res["frags"]
        n = len(frags)
        stats["fragment_sets"] += 1
        stats["fragments_min"] = min(stats["fragments_min"], n)
        stats["fragments_max"] = max(stats["fragments_max"], n)
        stats["big_sets"] += n > 50
        stats["ratio_sets"] += s["kind"] == "ratio"
        stats["tiny_sets"] += s["kind"] == "tiny"
        stats["lsh_fallback_runs"] += len(res["lsh"]) if n <= 1 else 0
        stats["exhaustive_pairs"] += len(res["exh_raw"])
        cfg = s["cfg"]
        maxp = cfg["MaxClonePairs"]
        exh = pset(res["exh_raw"], oriented=True)
        exh_u = pset(res["exh_raw"])
        truncated = len(exh) > maxp
        stats["truncated_runs"] += truncated
        replay = {"kind": "driver", "request": reqs[si]}

        # ---------------- twins: which related-construct pairs this run decides, and on which side of a batch boundary
        if s["kind"] == "twins":
            stats["twin_sets"] += 1
            pos = {(f["file"], f["start"]): i for i, f in enumerate(frags)}
            exh_ij = {(p["i"], p["j"]) for p in res["exh_raw"]}
            for k, m in s["meta"].items():
                ia, ib, ic = (pos.get((m[r], m["start"])) for r in "ABC")
                for order, (i, j) in (("variant0-first", (ia, ib)), ("variant1-first", (ib, ic))):
                    if i is None or j is None or (min(i, j), max(i, j)) not in exh_ij:
                        continue
                    i, j = min(i, j), max(i, j)
                    stats["twin_pairs_decided"] += 1
                    stats["twin_lsh_pairs"] += sum(1 for lr in res["lsh"] for p in lr["pairs"] if (p["i"], p["j"]) == (i, j))
                    for bs in s["batch_sizes"]:
                        key = "%s %s %s" % (k, order, "same-batch" if i // bs == j // bs else "cross-batch")
                        stats["twin_pairs_by_batch"][key] = stats["twin_pairs_by_batch"].get(key, 0) + 1

        # ---------------- SkipDocstrings: a copy that differs in its docstring only is structurally identical (apted_tree.go isDocstring)
        by_start = {(f["file"], f["start"]): i for i, f in enumerate(frags)}
        bases = {it["base"]: it for it in s.get("items", []) if it["relation"] == "base"}
        for it in s.get("items", []):
            if it["relation"] not in ("docedit", "verbatim") or not it.get("doc"):
                continue
            a, b = by_start.get((bases[it["base"]]["path"], bases[it["base"]]["start"])), by_start.get((it["path"], it["start"]))
            if a is None or b is None:
                continue
            stats["docstring_copies"][it["relation"]] = stats["docstring_copies"].get(it["relation"], 0) + 1
            if cfg["SkipDocstrings"] and frags[a]["tree"] != frags[b]["tree"]:
                ck.violation("with SkipDocstrings a copy that differs only in %s has a different tree: %s:%d vs %s:%d" % (
                    "its docstring" if it["relation"] == "docedit" else "comments and blank lines", frags[a]["file"], frags[a]["start"], frags[b]["file"], frags[b]["start"]),
                    dict(replay, frag_a=frags[a], frag_b=frags[b]))

        # ---------------- LSH: never invents, never loses identical fragments
        for lr in res["lsh"]:
            lp = lr["params"]
            stats["lsh_runs"] += 1
            rows_eff = lp["rows"] if lp["rows"] > 0 else 4
            hashes_eff = lp["hashes"] if lp["hashes"] > 0 else 128
            stats["rows_gt_hashes_runs"] += rows_eff > hashes_eff
            got = pset(lr["pairs"], oriented=True)
            stats["lsh_pairs"] += len(got)
            if True:
                inv = got - exh
                if inv:
                    p = sorted(inv)[0]
                    ck.violation("LSH (bands %d rows %d hashes %d threshold %r) reports a pair the exhaustive comparison does not report with the same "
                                 "similarity and type: fragments %d,%d sim %r type %d" % (lp["bands"], lp["rows"], lp["hashes"], lp["threshold"], p[0], p[1], p[2], p[4]),
                                 dict(replay, lsh=lp, frag_a=frags[p[0]], frag_b=frags[p[1]]))
                    continue
            if not truncated:
                for p in res["exh_raw"]:
                    if frags[p["i"]]["tree"] != frags[p["j"]]["tree"]:
                        continue
                    stats["identical_pairs_checked"] += 1
                    if (p["i"], p["j"], p["sim"], p["dist"], p["type"]) not in got:
                        ck.violation("LSH (bands %d rows %d hashes %d threshold %r) loses a pair of structurally identical fragments that the exhaustive "
                                     "comparison reports: %s:%d-%d and %s:%d-%d (LSH reported %d pairs, exhaustive %d)" % (
                                         lp["bands"], lp["rows"], lp["hashes"], lp["threshold"], frags[p["i"]]["file"], frags[p["i"]]["start"], frags[p["i"]]["end"],
                                         frags[p["j"]]["file"], frags[p["j"]]["start"], frags[p["j"]]["end"], len(got), len(exh)),
                                     dict(replay, lsh=lp, frag_a=frags[p["i"]], frag_b=frags[p["j"]], rows_gt_hashes=rows_eff > hashes_eff))
                        break
            # signature facts assumed by the theorems
            for k, sg in enumerate(lr["sigs"]):
                if len(sg) != hashes_eff:
                    ck.broken_ties.append("signature length %d != hash count %d" % (len(sg), hashes_eff))
                    break
            seen = {}
            for fe, sg in zip(lr["lshfeats"], lr["sigs"]):
                if seen.setdefault(tuple(sorted(fe)), sg) != sg:
                    ck.violation("equal feature sets with different MinHash signatures", dict(replay, lsh=lp))
                    break
            for i in range(n):
                if any(frags[i]["tree"] == frags[j]["tree"] and lr["lshfeats"][i] != lr["lshfeats"][j] for j in range(i)):
                    ck.violation("structurally identical fragments with different LSH feature sets", dict(replay, lsh=lp, frag=frags[i]))
                    break

        # ---------------- batching
        for bs, ps in list(res["batched"].items()) + [("public", res["detect"])]:
            stats["batch_runs"] += 1
            got = pset(ps)
            if not got <= exh_u:
                p = sorted(got - exh_u)[0]
                ck.violation("batched detection (batch size %s) reports a pair the exhaustive comparison does not report: fragments %d,%d sim %r type %d"
                             % (bs, p[0], p[1], p[2], p[4]), dict(replay, batch_size=bs, frag_a=frags[p[0]], frag_b=frags[p[1]]))
                continue
            if len(got) != len(ps):
                ck.violation("batched detection (batch size %s) reports a pair twice" % bs, dict(replay, batch_size=bs, pairs=ps))
                continue
            if not truncated:
                if got != exh_u:
                    p = sorted(exh_u - got)[0]
                    ck.violation("batched detection (batch size %s) differs from unbatched exhaustive detection although the pair limit %d does not truncate "
                                 "(%d pairs): missing fragments %d,%d sim %r" % (bs, maxp, len(exh_u), p[0], p[1], p[2]),
                                 dict(replay, batch_size=bs, frag_a=frags[p[0]], frag_b=frags[p[1]]))
            else:
                kept = sorted(x[2] for x in got)
                dropped = sorted(x[2] for x in exh_u - got)
                if len(got) != maxp or (dropped and kept and dropped[-1] > kept[0]):
                    ck.violation("truncated batched detection (batch size %s, limit %d) does not keep the most similar pairs: kept %d, lowest kept %r, highest dropped %r"
                                 % (bs, maxp, len(got), kept[:1], dropped[-1:]), dict(replay, batch_size=bs))

        # ---------------- LSH against BATCHED exhaustive detection (the exhaustive comparison of the public entry point for larger inputs)
        if not truncated:
            for lr in res["lsh"]:
                lp, got = lr["params"], pset(lr["pairs"])
                for bs, ps in list(res["batched"].items()) + [("public", res["detect"])]:
                    extra = got - pset(ps)
                    if extra:
                        p = sorted(extra)[0]
                        ck.violation("LSH (bands %d rows %d hashes %d threshold %r) reports a pair that batched exhaustive detection (batch size %s) does not report: "
                                     "fragments %d,%d sim %r type %d" % (lp["bands"], lp["rows"], lp["hashes"], lp["threshold"], bs, p[0], p[1], p[2], p[4]),
                                     dict(replay, lsh=lp, batch_size=bs, frag_a=frags[p[0]], frag_b=frags[p[1]]))
                        break

        # ---------------- pre-filters of shouldCompareFragments in both argument orders
        # The exhaustive loop calls compareFragments(earlier, later); the batch loop with batch size 1 calls it as (later, earlier)
        # for every pair.  For pairs that clear every other gate the reported pairs show what the filter answered in each order.
        s["pre"] = {}
        if not truncated and "1" in res["batched"] and reqs[si]["table"] != "none" and n > 1:
            t4 = cfg["Type4Threshold"]
            thr = cfg["SimilarityThreshold"] if cfg["SimilarityThreshold"] > 0 else t4
            fwd_set = {(p["i"], p["j"]) for p in res["exh_raw"]}
            bwd_set = {(p["i"], p["j"]) for p in res["batched"]["1"]}
            asym = None
            for c in res["table"]:
                i, j = c["i"], c["j"]
                if i >= j or cc.overlap(frags[i], frags[j]) or not c["gate"] or c["jac"] < 0.5 or c["sim"] < t4 or c["sim"] < thr:
                    continue
                if cfg["MaxEditDistance"] > 0 and c["dist"] > cfg["MaxEditDistance"]:
                    continue
                a, b = frags[i], frags[j]
                sc, lc = cc.size_class(a["size"], b["size"]), cc.line_class(a["lines"], b["lines"])
                fwd, bwd = (i, j) in fwd_set, (j, i) in bwd_set
                spec = not (cc.size_prefilter_rejects(a["size"], b["size"]) or cc.line_prefilter_rejects(a["lines"], b["lines"]))
                s["pre"][(i, j)] = (fwd, bwd, spec)
                stats["prefilter_pairs_both_orders"] += 1
                first = "smaller-first" if a["size"] < b["size"] else "larger-first" if a["size"] > b["size"] else "equal"
                if sc not in ("le-1.5", "gt-2"):
                    key = "size %s %s" % (sc, first)
                    stats["prefilter_classes"][key] = stats["prefilter_classes"].get(key, 0) + 1
                    for bs in BATCH_SIZES:
                        if str(bs) in res["batched"] and bs > 1:
                            k2 = "bs%d %s %s" % (bs, "same-batch" if i // bs == j // bs else "cross-batch", first)
                            stats["ratio_pairs_by_batch"][k2] = stats["ratio_pairs_by_batch"].get(k2, 0) + 1
                if lc != "lt-2":
                    key = "lines %s %s" % (lc, "shorter-first" if a["lines"] < b["lines"] else "longer-first")
                    stats["prefilter_classes"][key] = stats["prefilter_classes"].get(key, 0) + 1
                if fwd != bwd and asym is None:
                    asym = (i, j, fwd, bwd, sc, lc)
            if asym:
                i, j, fwd, bwd, sc, lc = asym
                ck.violation("shouldCompareFragments answers differently for the two argument orders of one fragment pair, so the pair is reported or not "
                             "depending on whether the two fragments share a batch: %s:%d-%d (Size %d, %d lines) and %s:%d-%d (Size %d, %d lines), similarity %r; "
                             "compared as (earlier, later) by the exhaustive loop: %s; compared as (later, earlier) by the batch loop with batch size 1: %s "
                             "[size ratio class %s, line ratio class %s]" % (
                                 frags[i]["file"], frags[i]["start"], frags[i]["end"], frags[i]["size"], frags[i]["lines"],
                                 frags[j]["file"], frags[j]["start"], frags[j]["end"], frags[j]["size"], frags[j]["lines"],
                                 [c["sim"] for c in res["table"] if (c["i"], c["j"]) == (i, j)][0],
                                 "reported" if fwd else "not reported", "reported" if bwd else "not reported", sc, lc),
                             dict(replay, frag_a=frags[i], frag_b=frags[j], batch_size=1))

        # ---------------- model
        if n == 0:
            continue
        files, trees = cc.Coder(), cc.Coder()
        evals = []
        body = ""
        mc = cc.model_cfg_from_detector(dict(cc.service_cfg({k: 0 for k in (
            "min_lines", "min_nodes", "type1_threshold", "type2_threshold", "type3_threshold", "type4_threshold", "similarity_threshold",
            "max_edit_distance", "ignore_literals", "ignore_identifiers", "skip_docstrings", "enable_dfa", "lsh_similarity_threshold",
            "lsh_bands", "lsh_rows", "lsh_hashes")}), **cfg), use_gate=res["uses_gate"])
        table = {"table": res["table"] + ([dict(c, i=c["j"], j=c["i"]) for c in res["table"]] if reqs[si]["table"] == "upper" else [])}
        cells, gates = cc.coq_cells(table, mc["t4"])
        body += "Definition c0 := %s.\n" % cc.coq_cfg(mc)
        body += "Definition fs0 := %s.\n" % cc.frags_terms(res, None, files, trees)
        body += "Definition cells : qtab := %s.\nDefinition gates : list (N * N) := %s.\n" % (cells, gates)
        body += "Definition tabs0 := Build_tables cells gates [].\n"
        body += "Eval vm_compute in (run_detect tabs0 c0 fs0).\n"
        evals.append(("detect", None))
        if s["pre"] and n <= 30:
            body += "Eval vm_compute in (run_prefilter fs0).\nEval vm_compute in (run_prefilter_spec fs0).\n"
            evals += [("prefilter", None), ("prefilter_spec", None)]
        if not truncated or maxp <= 0:
            for bs in ([7] if n > 30 else s.get("batch_sizes", BATCH_SIZES)):
                body += "Eval vm_compute in (run_batched tabs0 c0 fs0 %s).\n" % cZ(bs)
                evals.append(("batched", bs))
        vals = cc.Coder()
        for li, lr in enumerate(res["lsh"][: (1 if n > 30 else 4)]):
            lp = lr["params"]
            mcl = dict(mc, use_lsh=True, lsh_thr=lp["threshold"], lsh_bands=lp["bands"], lsh_rows=lp["rows"], lsh_hashes=lp["hashes"])
            body += "Definition c%d := %s.\n" % (li + 1, cc.coq_cfg(mcl))
            body += "Definition fs%d := %s.\n" % (li + 1, cc.frags_terms(res, lr, files, trees))
            body += "Definition tabs%d := Build_tables cells gates %s.\n" % (li + 1, cc.coq_sigs(lr, vals))
            body += "Eval vm_compute in (run_lsh tabs%d c%d fs%d).\n" % (li + 1, li + 1, li + 1)
            evals.append(("lsh", li))
            # FNV band hashing on the real signature values of the first two fragments
            body += "Eval vm_compute in (run_bandkeys (Build_tables [] [] %s) c%d (firstn 2 fs%d)).\n" % (cc.coq_sigs(lr, None, only={0, 1}), li + 1, li + 1)
            evals.append(("bandkeys", li))
        jobs.append(("C09_case_%d" % si, cc.REQ, body))
        s["evals"] = evals
        s["job"] = len(jobs) - 1

    model_out = None
    if jobs and not any(f in ("Clone/Pairs.v", "Clone/PairsRun.v") or "Gen/" in f for f in ck.failed_files):
        try:
            model_out = [lib.parse_coq_values(o) for o in lib.coq_eval_many(jobs, workers=8)]
        except Exception as e:
            ck.broken_ties.append("model evaluation failed: %s" % str(e)[-800:])
    lib.log("model %.1fs" % (time.time() - t0))
    if model_out is not None:
        for s in sets:
            if not s.get("res") or "job" not in s:
                continue
            res, mv = s["res"], model_out[s["job"]]
            truncated = len(res["exh_raw"]) > s["cfg"]["MaxClonePairs"]
            for (kind, arg), v in zip(s["evals"], mv):
                if kind == "bandkeys":
                    lr = res["lsh"][arg]
                    impl = [[(int(k.split(":")[1]), int(k.split(":")[2], 16)) for k in ks] for ks in lr["bandkeys"][:2]]
                    mod = [[tuple(k) for k in ks] for ks in v]
                    stats["bandkey_fragments"] += len(impl)
                    if impl != mod:
                        ck.broken_ties.append("model band keys differ from computeBandKeys for %s: impl %s model %s" % (lr["params"], impl[0][:2], mod[0][:2] if mod else mod))
                    continue
                if kind == "prefilter":
                    # the model filter in both argument orders against what the implementation did in each order
                    mp = {(e[0], e[1]): (e[2], e[3]) for e in v}
                    stats["model_prefilter_cells"] += 2 * len(mp)
                    bad = [(k, x) for k, x in mp.items() if x[0] != x[1]]
                    if bad:
                        ck.broken_ties.append("model should_compare is not symmetric on %s" % (bad[:2],))
                    for (i, j), (fwd, bwd, spec) in s["pre"].items():
                        if (i, j) in mp and mp[(i, j)] != (fwd, bwd):
                            ck.broken_ties.append("model should_compare (a,b)/(b,a) = %s but shouldCompareFragments answered %s for fragments %d,%d "
                                                  "(sizes %d/%d lines %d/%d)" % (mp[(i, j)], (fwd, bwd), i, j, res["frags"][i]["size"], res["frags"][j]["size"],
                                                                                 res["frags"][i]["lines"], res["frags"][j]["lines"]))
                            break
                    continue
                if kind == "prefilter_spec":
                    fr = res["frags"]
                    for e in v:
                        i, j = e[0], e[1]
                        py = not (cc.size_prefilter_rejects(fr[i]["size"], fr[j]["size"]) or cc.line_prefilter_rejects(fr[i]["lines"], fr[j]["lines"]))
                        if py != e[2]:
                            ck.broken_ties.append("harness reading of the pre-filters differs from Clone/PairsPre.v prefilter_spec on sizes %d/%d lines %d/%d"
                                                  % (fr[i]["size"], fr[j]["size"], fr[i]["lines"], fr[j]["lines"]))
                            break
                    continue
                m = {cc.upair(a, b, t) for a, b, t in cc.pairs_of_model(v)}
                if kind == "detect":
                    impl = {cc.upair(p["i"], p["j"], p["type"]) for p in res["detect"]}
                    stats["model_batch"] += 1
                elif kind == "batched":
                    impl = {cc.upair(p["i"], p["j"], p["type"]) for p in res["batched"][str(arg)]}
                    stats["model_batch"] += 1
                else:
                    impl = {cc.upair(p["i"], p["j"], p["type"]) for p in res["lsh"][arg]["pairs"]}
                    stats["model_lsh"] += 1
                if truncated and s["cfg"]["MaxClonePairs"] > 0:
                    continue   # the unstable sort decides; covered by the property-level checks above
                if impl != m:
                    ck.broken_ties.append("model %s(%s) differs from the implementation: model-only %s impl-only %s (cfg %s)" % (
                        kind, arg if kind != "lsh" else res["lsh"][arg]["params"], sorted(m - impl)[:3], sorted(impl - m)[:3], s["cfg"]))

    # ---------------- the lattice must have been reached (otherwise the run decides nothing about the pre-filters' argument order)
    if not any(s.get("res") is None for s in sets):
        need = ["size %s %s" % (c, o) for c in ("in-(1.5,5/3)", "in-(5/3,2)") for o in ("smaller-first", "larger-first")]
        missing = [k for k in need if not stats["prefilter_classes"].get(k)]
        missing += [c for c in ("size edge-5/3", "size edge-2") if not any(k.startswith(c) for k in stats["prefilter_classes"])]
        missing += ["lines %s %s" % (c, o) for c in ("edge-2", "edge-2+1") for o in ("shorter-first", "longer-first") if not stats["prefilter_classes"].get("lines %s %s" % (c, o))]
        missing += ["bs%d cross-batch %s" % (bs, o) for bs in (2, 3, 7) for o in ("smaller-first", "larger-first")
                    if not stats["ratio_pairs_by_batch"].get("bs%d cross-batch %s" % (bs, o))]
        if not any(k.endswith(o) and "same-batch" in k for k in stats["ratio_pairs_by_batch"] for o in ("smaller-first", "larger-first")):
            missing.append("a same-batch pair with a Size ratio in (1.5, 2)")
        if missing:
            ck.broken_ties.append("generator: the size/line ratio lattice of the pre-filters was not reached: %s" % missing)
        missing = ["%s %s %s" % (k, o, b) for k in twin_kinds for o in ("variant0-first", "variant1-first") for b in ("same-batch", "cross-batch")
                   if not stats["twin_pairs_by_batch"].get("%s %s %s" % (k, o, b))]
        if missing or not stats["twin_lsh_pairs"]:
            ck.broken_ties.append("generator: related-construct twins were not decided on both sides of a batch boundary in both source orders "
                                  "(or never by the LSH path): %s, LSH reports of twin pairs %d" % (missing, stats["twin_lsh_pairs"]))

    # ---------------- command line: [clones] lsh_enabled = true / false on the same project
    base = lib.fresh_dir("c09")
    for k in range(6 if thorough else 2):
        texts, items = cc.gen_project(rng, n_bases=3, max_items=6)
        lp = rand_lsh(rng)
        lp = dict(lp, bands=max(1, lp["bands"]), rows=max(1, lp["rows"]), hashes=max(1, lp["hashes"]), threshold=min(1.0, max(0.0, lp["threshold"])))
        out = {}
        for mode in ("false", "true"):
            d = os.path.join(base, "p%d_%s" % (k, mode))
            for p, t in texts.items():
                os.makedirs(os.path.dirname(os.path.join(d, p)), exist_ok=True)
                with open(os.path.join(d, p), "w") as f:
                    f.write(t)
            with open(os.path.join(d, ".pyscn.toml"), "w") as f:
                f.write('[clones]\nmin_lines = 4\nmin_nodes = 6\nenabled_clone_types = ["type1", "type2", "type3", "type4"]\nenable_dfa = false\n'
                        'lsh_enabled = "%s"\nlsh_bands = %d\nlsh_rows = %d\nlsh_hashes = %d\nlsh_similarity_threshold = %r\n' % (
                            mode, lp["bands"], lp["rows"], lp["hashes"], float(lp["threshold"])))
            rc, data, err = lib.analyze_json(d, ["--select", "clones"])
            if data is None or not data.get("clone"):
                ck.broken_ties.append("pyscn analyze produced no clone report (lsh_enabled=%s): %s" % (mode, (err or "")[-200:]))
                break
            out[mode] = data["clone"]
        if len(out) != 2:
            continue
        stats["cli_lsh_runs"] += 1

        def key(p):
            a, b = p["clone1"]["location"], p["clone2"]["location"]
            return (tuple(sorted([(a["file_path"], a["start_line"], a["end_line"]), (b["file_path"], b["start_line"], b["end_line"])])),
                    p["similarity"], p["distance"], p["type"])
        off = {key(p) for p in out["false"]["clone_pairs"] or []}
        on = {key(p) for p in out["true"]["clone_pairs"] or []}
        replay = {"kind": "cli", "files": texts, "lsh": lp}
        if out["true"]["request"]["lsh_rows"] != lp["rows"] or out["true"]["request"]["lsh_enabled"] != "true":
            ck.notes.append("LSH settings of .pyscn.toml not echoed by the request: %s" % {k: v for k, v in out["true"]["request"].items() if k.startswith("lsh")})
        if not on <= off:
            ck.violation("pyscn with lsh_enabled=true reports a pair that lsh_enabled=false does not: %s" % (sorted(on - off)[:1],), replay)
        lost = [p for p in off - on if p[1] == 1.0 and p[2] == 0.0]
        if lost:
            ck.violation("pyscn with lsh_enabled=true (%s) loses an identical pair that lsh_enabled=false reports: %s" % (lp, lost[:1]), replay)

    ck.samples = [{"lsh_params": s["lsh"][:2], "cfg": s["cfg"], "fragments": len(s["res"]["frags"]), "exhaustive_pairs": len(s["res"]["exh_raw"]),
                   "lsh_pairs": [len(l["pairs"]) for l in s["res"]["lsh"]]} for s in sets[:3] if s.get("res")]
    if stats["fragments_min"] == 10 ** 9:
        stats["fragments_min"] = 0
    ck.cov.update({
        "evaluations": stats["lsh_runs"] + stats["batch_runs"] + 2 * stats["cli_lsh_runs"],
        "distinct_nontrivial": stats["identical_pairs_checked"] + stats["exhaustive_pairs"],
        "rule": "generated fragment sets (identical groups, renamed and edited near-duplicates, unrelated fragments, docstring-only copies; %d..%d fragments; "
                "plus the size-ratio family: try/except/finally functions with identical handlers, Size ratios exactly 1.5, inside (1.5, 5/3), exactly 5/3, inside (5/3, 2), "
                "exactly 2 at similarity 0.75..0.9, smaller-first and larger-first, same batch and different batches for batch sizes 2, 3, 7 and more than 50 positions apart "
                "in the big set; a line-count lattice 2x-1 / 2x / 2x+1 in both orders; sets of 0, 1 and 2 fragments, MaxClonePairs 0, 2-3 node fragments; "
                "related-construct twins: for every entry of PythonCostModel.areRelatedNodeTypes (read from apted_cost.go: def/async def, for/async for, with/async with, "
                "BinOp/UnaryOp, List/Tuple, ListComp/GeneratorExp, If/IfExp) and one same-category kind a function, its twin and a verbatim copy of the function, i.e. the "
                "twin pair with either variant first, in the layouts spread (every twin pair more than a batch apart for batch sizes 1-3) and adjacent (every twin pair inside "
                "one batch for batch size 3), python / weighted / default-named cost model, the four type thresholds ON the four similarities a lenient probe run observed "
                "(+-2^-40), reporting threshold unset or on the Type-4 edge, MaxEditDistance unset or on / next to the largest observed distance, BatchSizeThreshold 2 or 3; "
                "the run fails if some related kind was not decided same-batch and cross-batch in both source orders or never by the LSH path) x "
                "LSH grid (bands, rows incl. rows > hashes and non-positive defaults, hash counts, thresholds incl. out of [0,1]) x batch sizes %s + "
                "the public entry point with varied batch thresholds x pair limits (incl. truncating ones); CLI with lsh_enabled true/false; "
                "distinct = exhaustive pairs compared" % (stats["fragments_min"], stats["fragments_max"], BATCH_SIZES),
        "input_distribution": stats,
        "disagreements_checked": len(ck.violations) + len(ck.broken_ties),
    })
    ck.trusted += [
        "Coq 8.16.1 kernel, vm_compute for model evaluation",
        "translator /verif/translator gen_clone.go (comparison operators, literals, defaults, the band-width clamp of computeBandKeys)",
        "Section hypotheses of Props/C09.v: sim/dist/gate symmetric (tested on every pair of every C08 run and on the full tables here), "
        "a signature has numHashes entries and depends only on the feature set (tested per run)",
        "math/rand-derived hash functions of MinHasher are abstract (signatures are taken from the implementation); FNV-64a band hashing is "
        "modelled and compared with computeBandKeys on every fragment",
        "Go map iteration order in FindCandidates only permutes the candidate list: modelled as the set of index pairs sharing a band key",
        "EstimateJaccardSimilarity's float64 quotient matches/n against the float64 LSH threshold: the model gets the exact bound m0/n with m0 the least "
        "match count whose float64 quotient reaches the threshold (clonecommon.lsh_threshold_for_model; computed with Python float64 arithmetic)",
        "shouldCompareFragments' argument order: the exhaustive loop shows the answer for (earlier, later), the batch loop with batch size 1 for (later, earlier); "
        "both are compared with Clone/PairsPre.v run_prefilter (model filter in both orders) on every pair that clears the other gates",
        "hand-written model Clone/Pairs.v of clone_detector.go / lsh_index.go / minhash.go",
    ]
    ck.finish(assumptions=["'batched = unbatched' and 'identical pairs kept' are stated and checked without truncation by MaxClonePairs; "
                           "under truncation only 'never invents' and 'keeps the most similar' are checked"])
