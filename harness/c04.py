"""C04 — every definition is analysed exactly once, under its real name and line span."""
import ast as pyast

import lib
import pygen
import cfgcommon as cc
from c02 import dup_module

REQ = ("From Coq Require Import NArith List Bool.\nImport ListNotations.\n"
       "From PV Require Import Py.PyAST Cfg.Flow Cfg.Defs.\nOpen Scope N_scope.")


def python_defs(path):
    """Independent cross-check of the layout: CPython's own parser (ast.walk)."""
    tree = pyast.parse(open(path).read())
    funcs, classes = [], []
    for n in pyast.walk(tree):
        if isinstance(n, (pyast.FunctionDef, pyast.AsyncFunctionDef)):
            funcs.append((n.name, n.lineno, n.end_lineno))
        elif isinstance(n, pyast.ClassDef):
            classes.append((n.name, n.lineno, n.end_lineno))
    return sorted(funcs), sorted(classes)


def _indent(line):
    return len(line) - len(line.lstrip(" "))


def trailing_comment_rows(lines, spec, impl):
    """Rows of `impl` that differ from `spec` only by an end line that additionally covers own-line comments (and blank lines
    between them) which follow the last statement of the definition and are indented deeper than its header: tree-sitter keeps
    such a comment inside the block, python3 ast ends the definition at its last statement.  Returns {impl row: spec row}."""
    out = {}
    by = {(n, a): (n, a, b) for n, a, b in spec}
    for row in impl:
        n, a, b = row
        sp = by.get((n, a))
        if sp is None or row in spec or b <= sp[2] or b > len(lines):
            continue
        between = lines[sp[2]:b]                       # source lines sp.end+1 .. b (1-based)
        if all(x.strip() == "" or x.lstrip().startswith("#") for x in between) and between[-1].lstrip().startswith("#") \
                and all(_indent(x) > _indent(lines[a - 1]) for x in between if x.strip()):
            out[row] = sp
    return out


def dedented_comment_after_decorator(lines):
    """A decorator line followed by an own-line comment indented LESS than the decorator (valid Python: comment lines carry no
    indentation): tree-sitter-python closes the block at the comment and the file does not parse."""
    for i, x in enumerate(lines[:-1]):
        if x.lstrip().startswith("@") or (i > 0 and lines[i - 1].rstrip().endswith(",") and lines[i - 1].lstrip().startswith("@")):
            j = i + 1
            while j < len(lines) and lines[j].strip() == "":
                j += 1
            if j < len(lines) and lines[j].lstrip().startswith("#") and _indent(lines[j]) < _indent(x if x.lstrip().startswith("@") else lines[i - 1]):
                return True
    return False


def main(tier):
    ck = lib.Check("C04", tier)
    ck.prepare("C04.v")
    rng = ck.rng
    thorough = tier == "thorough"
    n_mod = 400 if thorough else 60
    mods = cc.gen_modules(rng, n_mod, dict(max_depth=4, max_len=4, n_funcs=3))
    mods += cc.gen_modules(rng, n_mod // 2, dict(max_depth=4, max_len=3, n_funcs=3, constructs=['simple', 'return', 'if', 'for', 'try', 'with', 'def', 'class', 'def', 'class']))
    # decorated and async definitions (multi-line decorators included): the reported span starts at the def/class line
    for m in mods[len(mods) // 2:]:
        m["ast"], m["lines"] = pygen.layout(m["ast"], deco_rng=rng)
        m["decorated"] = True
    # trivia at clause positions (comments are named children in tree-sitter, blank lines and continuations are extras): random
    # trivia on a share of the decorated modules, then the systematic lattice: every (statement kind, clause, slot, kind) once with
    # definitions in every clause, and every kind at all slots at once
    n_rt = 0
    for m in mods[len(mods) // 2:]:
        if rng.random() < 0.4:
            tv = pygen.Trivia(rng=rng, p=0.12, exclude=[('deco', 'c_col0')])
            m["ast"], m["lines"] = pygen.layout(m["ast"], deco_rng=rng, trivia=tv)
            m["trivia_used"] = tv.used
            n_rt += 1
    tmods = pygen.trivia_cases(rng, sample=None if thorough else 0.25)
    if not thorough:
        # the Coq model of the registry does not see trivia (the statement tree is the same with and without it): in the quick tier
        # the model tie is evaluated on the random modules and on a few of the trivia modules only; the decision against the
        # spec (pygen's own name/span knowledge, cross-checked with python3 ast) is made for every module
        for i, m in enumerate(tmods):
            m["no_model"] = i % 6 != 0
    mods += tmods
    for _ in range(3):
        a, lines = pygen.layout(dup_module(rng))
        mods.append({"ast": a, "lines": lines, "dup": True})
    d = lib.fresh_dir("c04")
    cc.write_modules(mods, d)
    rc, data, err = cc.run_pyscn(d, select="complexity,lcom")
    if data is None:
        ck.broken_ties.append("pyscn produced no report (rc=%s): %s" % (rc, err[-500:]))
        ck.finish()
    cc.index_report(data, mods)
    by_path = {m["path"].split("/")[-1]: m for m in mods}
    for m in mods:
        m["impl_classes"] = []
    for c in (data.get("lcom") or {}).get("Classes") or []:
        m = by_path.get(c["FilePath"].split("/")[-1])
        if m is not None:
            m["impl_classes"].append((c["Name"], c["StartLine"], c["EndLine"]))
    # model / spec rows from Coq
    rows = None
    try:
        jobs = []
        # contiguous shards of about equal source size (the trivia modules are several times longer than the random ones)
        mm = [m for m in mods if not m.get("no_model")]
        budget = sum(len(m["lines"]) for m in mm) / 8.0 + 1
        cuts, acc = [0], 0
        for i, m in enumerate(mm):
            acc += len(m["lines"])
            if acc >= budget:
                cuts.append(i + 1)
                acc = 0
        if cuts[-1] != len(mm):
            cuts.append(len(mm))
        for off, end in zip(cuts, cuts[1:]):
            items = [pygen.coq_block(m["ast"]) for m in mm[off:end]]
            jobs.append(("C04_%d" % off, REQ, "Definition mods : list block := %s.\nEval vm_compute in (map (fun m => (registry m, all_defs m, lcom_class_rows m, all_classes m)) mods).\n" % lib.clist(items)))
        rows = []
        for out in lib.coq_eval_many(jobs, workers=12):
            rows += lib.parse_coq_values(out)[0]
        if len(rows) != len(mm):
            raise RuntimeError("%d model rows for %d modules" % (len(rows), len(mm)))
        it = iter(rows)
        rows = [None if m.get("no_model") else next(it) for m in mods]
    except Exception as e:
        rows = None
        ck.broken_ties.append("model evaluation failed: " + str(e)[-1500:])
    stats = dict(modules=len(mods), defs=0, nested_defs=0, methods=0, classes=0, nested_classes=0, dup_modules=0, max_depth=0,
                 trivia_random_modules=n_rt, trivia_modules=len(tmods), trivia_single_position_cases=0, trivia_slots_used={},
                 trailing_comment_spans=0, files_dropped_known=0, model_tie_modules=0)
    nviol = tie = 0

    def viol(what, rep):
        nonlocal nviol
        nviol += 1
        if nviol <= 3:
            ck.violation(what, rep)

    for mi, m in enumerate(mods):
        defs = pygen.all_defs(m["ast"])
        spec = sorted((pygen.qualname(p, m["ast"]), s[1], pygen.end_line(s)) for p, s in defs)
        impl = sorted((r["name"], r["start"], r["end"]) for r in m["impl_funcs"] if r["name"] != "__main__")
        n_main = sum(1 for r in m["impl_funcs"] if r["name"] == "__main__")
        stats["defs"] += len(spec)
        stats["nested_defs"] += sum(1 for p, s in defs if len(p) > 1)
        stats["max_depth"] = max([stats["max_depth"]] + [len(p) for p, s in defs])
        stats["dup_modules"] += bool(m.get("dup"))
        stats["trivia_single_position_cases"] += sum(1 for c in m.get("trivia_case", ()) if not c.startswith("all/"))
        for (slot, kind), n in (m.get("trivia_used") or {}).items():
            key = slot.split(":")[0] + "/" + kind
            stats["trivia_slots_used"][key] = stats["trivia_slots_used"].get(key, 0) + n
        # cross-check of the layout function against CPython's parser
        pf, pc = python_defs(m["path"])
        if sorted((n.split(".")[-1], a, b) for n, a, b in spec) != pf:
            ck.broken_ties.append("layout tie: pygen.layout and python3 ast disagree on def spans in %s" % m["path"])
        file_dropped = not m["impl_funcs"] and not m["impl_classes"]
        if file_dropped and spec and dedented_comment_after_decorator(m["lines"]):
            # the whole file is missing from the report (not even its __main__ row)
            kf = ck.match_known({"class": "dedented-comment-after-decorator-drops-file"})
            if kf is not None:
                stats["files_dropped_known"] += 1
                ck.known_finding(kf)
                continue
        tr_f = trailing_comment_rows(m["lines"], spec, impl)
        if tr_f:
            kf = ck.match_known({"class": "trailing-comment-in-span"})
            if kf is not None:
                stats["trailing_comment_spans"] += len(tr_f)
                ck.known_finding(kf)
                impl = sorted(tr_f.get(r, r) for r in impl)
        if impl != spec:
            names = [n for n, _, _ in spec]
            dup = len(set(names)) != len(names)
            kf = ck.match_known({"class": "duplicate-qualified-name"}) if dup else None
            # with duplicates: the rows that are present must still be right and nothing else may be wrong
            if kf is not None and set(impl) <= set(spec) and {n for n, _, _ in impl} == set(names):
                ck.known_finding(kf)
            else:
                missing = [x for x in spec if x not in impl]
                extra = [x for x in impl if x not in spec]
                viol("definitions of %s are not reported exactly once with dotted name and line span: missing %s, unexpected %s%s"
                     % (m["path"], missing[:4], extra[:4], (" [trivia cases: %s]" % m["trivia_case"][:20]) if m.get("trivia_case") else ""),
                     {"kind": "functions", "file": m["path"], "source": m["lines"], "expected": spec, "reported": impl})
        if n_main != 1:
            viol("expected exactly one __main__ row for %s, found %d" % (m["path"], n_main), {"kind": "main-row", "file": m["path"]})
        # classes
        cls = []

        def walk(b, scope):
            for s in b:
                if s[0] == 'class':
                    cls.append((scope + [s[2]], s))
                    walk(s[3], scope + [s[2]])
                elif s[0] == 'def':
                    walk(s[3], scope + [s[2]])
                else:
                    for _, sb in pygen.sub_blocks(s):
                        walk(sb, scope)
        walk(m["ast"], [])
        cspec = sorted((pygen.qualname(p, m["ast"]), s[1], pygen.end_line(s)) for p, s in cls)
        cimpl = sorted(m["impl_classes"])
        if sorted((n.split(".")[-1], a, b) for n, a, b in cspec) != pc:
            ck.broken_ties.append("layout tie: pygen.layout and python3 ast disagree on class spans in %s" % m["path"])
        stats["classes"] += len(cspec)
        stats["nested_classes"] += sum(1 for p, s in cls if len(p) > 1)
        bare = sorted((n.split(".")[-1], a, b) for n, a, b in cspec)
        tr_c = trailing_comment_rows(m["lines"], sorted(set(cspec + bare)), cimpl)   # lcom rows carry bare names (F20)
        if tr_c:
            kf = ck.match_known({"class": "trailing-comment-in-span"})
            if kf is not None:
                stats["trailing_comment_spans"] += len(tr_c)
                ck.known_finding(kf)
                cimpl = sorted(tr_c.get(r, r) for r in cimpl)
        if cimpl != cspec:
            kf = ck.match_known({"class": "nested-class-bare-name"})
            if kf is not None and cimpl == bare and any(len(p) > 1 for p, s in cls):
                ck.known_finding(kf)
            else:
                ref = bare if (kf is not None and not set(cimpl) & set(cspec) - set(bare)) else cspec
                viol("classes of %s are not reported exactly once with dotted name and line span: missing %s, unexpected %s (of %d expected)%s"
                     % (m["path"], [x for x in ref if x not in cimpl][:4], [x for x in cimpl if x not in ref][:4], len(cspec),
                        (" [trivia cases: %s]" % m["trivia_case"][:20]) if m.get("trivia_case") else ""),
                     {"kind": "classes", "file": m["path"], "source": m["lines"], "expected": cspec, "reported": cimpl})
        # tie: model rows
        if rows is not None and rows[mi] is not None:
            stats["model_tie_modules"] += 1
            reg, alld, lrows, allc = rows[mi]
            model_f = sorted((pygen.qualname(list(q), m["ast"]), k) for q, k in reg)
            if model_f != sorted((n, a) for n, a, _ in impl):
                tie += 1
                if tie <= 3:
                    ck.broken_ties.append("model tie: registry of Defs.v %s differs from pyscn's function rows %s in %s"
                                          % (model_f[:6], sorted((n, a) for n, a, _ in impl)[:6], m["path"]))
            model_c = sorted((pygen.qualname(list(q), m["ast"]).split(".")[-1], k) for q, k in lrows)
            if model_c != sorted((n, a) for n, a, _ in cimpl):
                tie += 1
                if tie <= 3:
                    ck.broken_ties.append("model tie: lcom_class_rows %s differs from pyscn's class rows %s in %s"
                                          % (model_c[:6], sorted((n, a) for n, a, _ in cimpl)[:6], m["path"]))
    ck.samples = [{"file": mods[0]["path"], "source_head": mods[0]["lines"][:30]}]
    ck.cov.update({
        "evaluations": stats["defs"] + stats["classes"], "distinct_nontrivial": stats["nested_defs"] + stats["nested_classes"] + 2,
        "rule": "generated modules with defs/classes at any nesting (in if/for/try/with bodies, methods, defs in methods, classes in defs); "
                "clause trivia (pygen.Trivia): comments, blank lines and backslash continuations on the header line after the colon, on own "
                "lines before the first statement of a block (at block, column-0, header and deeper indentation), after the last statement "
                "of a block (= before the next elif/else/except/except*/finally/case clause) and between decorators and the header, for "
                "every clause kind (if elif else for while loop-else try except except* try-else finally with match case def class, async "
                "forms) - every (statement kind, clause, slot, kind) at exactly one position with a def and a class in EVERY clause "
                "(quick: a seed-dependent quarter of them; thorough: all), every kind at all positions at once, and at random in the "
                "decorated modules; "
                "one evaluation = one def or class statement checked for presence exactly once with dotted name, start and end line; "
                "distinct_nontrivial = nested definitions",
        "input_distribution": stats, "disagreements_checked": nviol + tie,
    })
    ck.trusted += ["Coq 8.16.1 kernel; vm_compute", "harness/pygen.py layout, cross-checked against python3 ast.walk on every module",
                   "hand-written model Cfg/Defs.v of the BuildAll registry and lcom.collectClasses"]
    ck.finish(assumptions=["half of the modules carry random decorators (one of them spanning two lines) and async defs",
                          "trivia files are valid Python (python3 ast.parse accepts every one) and are never executed"])
