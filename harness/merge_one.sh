#!/bin/bash
# usage: merge_one.sh <suffix e.g. S617> <repo-branch e.g. s617>
sfx=$1; rb=$2
cd /verif
git merge --no-edit work-$sfx > /tmp/merge_$sfx.log 2>&1
if git status --short | grep -q "^UU\|^AA"; then
  for f in $(git status --short | grep "^UU\|^AA" | awk '{print $2}'); do
    case $f in evidence/*) git checkout --theirs $f; git add $f;; *) echo "CONFLICT $f";; esac
  done
  git status --short | grep -q "^UU\|^AA" || git commit -qm "Merge work-$sfx"
fi
n=$(git -C /repo log --oneline main..$rb | wc -l)
echo "repo commits on $rb: $n"; git -C /repo log --oneline main..$rb
