package main

// gen_formats.go — the output format flags of `pyscn analyze` (property C16: every run writes one report or fails).
//
//   Gen/FormatTables.v   determineOutputFormat_table: AnalyzeCommand.determineOutputFormat run (interpreter goeval.go) on all
//                        sixteen settings of --html --json --csv --yaml -> the format, or none when it returns an error
//   Gen/FormatConst.v    analyze_rejects_formats_before_analysis: runAnalyze returns the error of determineOutputFormat in a
//                        top-level statement that comes before the one that runs the analyses (useCase.Execute)

import (
	"fmt"
	"go/ast"
	"strings"
)

func init() {
	generators = append(generators, func() {
		cmd := loadPkg("cmd/pyscn")
		if cmd == nil {
			fail("gen_formats: cmd/pyscn not loadable")
			return
		}
		var b, tb strings.Builder
		fdo := findFunc(cmd, "analyze.go", "AnalyzeCommand", "determineOutputFormat")
		fra := findFunc(cmd, "analyze.go", "AnalyzeCommand", "runAnalyze")
		if fdo == nil || fra == nil {
			fail("gen_formats: determineOutputFormat / runAnalyze not found in cmd/pyscn/analyze.go")
			return
		}
		in := newInterp(cmd)
		var rows []string
		bad := false
		for m := 0; m < 16; m++ {
			h, j, c, y := m&8 != 0, m&4 != 0, m&2 != 0, m&1 != 0
			vs, err := in.CallFunc(cmd, fdo, mkStruct("AnalyzeCommand", "html", h, "json", j, "csv", c, "yaml", y))
			if err != nil || len(vs) != 3 {
				if !bad {
					fail("gen_formats: determineOutputFormat cannot be evaluated: %v", err)
				}
				bad = true
				continue
			}
			res := "None"
			if isNilVal(vs[2]) {
				f, _ := vs[0].(string)
				e, _ := vs[1].(string)
				if f != e {
					fail("gen_formats: determineOutputFormat returns format %q with extension %q", f, e)
				}
				res = "(Some " + tedStr(f) + ")"
			}
			rows = append(rows, fmt.Sprintf("((%s, %s, %s, %s), %s)", coqBool(h), coqBool(j), coqBool(c), coqBool(y), res))
		}
		if bad {
			rows = nil
		}
		emitTable(&tb, "determineOutputFormat_table", "(bool * bool * bool * bool) * option string", rows)

		// runAnalyze: position of the statement that returns determineOutputFormat's error / of the one that calls Execute
		reject, execute := -1, -1
		for i, st := range fra.Body.List {
			if is, ok := st.(*ast.IfStmt); ok && is.Init != nil && is.Else == nil {
				as, ok := is.Init.(*ast.AssignStmt)
				callsIt := ok && len(as.Rhs) == 1 && len(as.Lhs) == 3 && selName(as.Lhs[2]) == "err"
				if callsIt {
					ce, ok := as.Rhs[0].(*ast.CallExpr)
					callsIt = ok && selName(ce.Fun) == "c.determineOutputFormat"
				}
				cond := strings.Join(strings.Fields(src(cmd, is.Cond)), "")
				returnsErr := len(is.Body.List) == 1
				if returnsErr {
					rs, ok := is.Body.List[0].(*ast.ReturnStmt)
					returnsErr = ok && len(rs.Results) == 1 && selName(rs.Results[0]) == "err"
				}
				if callsIt && cond == "err!=nil" && returnsErr && reject < 0 {
					reject = i
				}
			}
			found := false
			ast.Inspect(st, func(nd ast.Node) bool {
				if ce, ok := nd.(*ast.CallExpr); ok && selName(ce.Fun) == "useCase.Execute" {
					found = true
				}
				return true
			})
			if found && execute < 0 {
				execute = i
			}
		}
		if execute < 0 {
			fail("gen_formats: runAnalyze does not call useCase.Execute")
		}
		fmt.Fprintf(&b, "(* runAnalyze: statement %d returns the error of determineOutputFormat, statement %d runs the analyses *)\n", reject, execute)
		fmt.Fprintf(&b, "Definition analyze_rejects_formats_before_analysis : bool := %v.\n", reject >= 0 && execute >= 0 && reject < execute)
		writeGen("FormatConst.v", b.String())
		writeGen("FormatTables.v", tb.String())
		recordDigest(cmd, "analyze.go", "AnalyzeCommand", "determineOutputFormat")
		recordDigest(cmd, "analyze.go", "AnalyzeCommand", "runAnalyze")
	})
}
