package main

// gen_det.go: the comparison keys, pre-range sorts and cut-off constants of every emission site
// whose order matters for reproducibility (property C05) -> coq/Gen/DetConst.v.
//
// For each sort call site the *field sequence* of the `less` function is read off the Go AST
//
//	if xs[i].F != xs[j].F { return xs[i].F > xs[j].F }   ->  (code F, descending)
//	...
//	return helper(xs[i], xs[j])                           ->  the helper's own sequence, inlined
//
// and written as a Coq list of (field index, descending?) pairs. The models in coq/Det/Sites.v sort
// with exactly that list; the determinism theorems need the list to cover the fields that identify
// an item, so dropping a tie-breaker in the Go code breaks a proof, not only a test.
//
// For each place that ranges over a Go map and emits in that order, the generator checks that the
// keys are collected and sorted first (`sort.Strings(keys)`) and that the map itself is ranged over
// only to collect keys; the result is a Coq boolean `sorted_<site>` the models branch on.

import (
	"fmt"
	"go/ast"
	"go/token"
	"os"
	"regexp"
	"strings"
)

type keyField struct {
	text string
	desc bool
}

func tokRegexp(tok string) *regexp.Regexp {
	if regexp.MustCompile(`^[A-Za-z_][A-Za-z0-9_]*$`).MatchString(tok) {
		return regexp.MustCompile(`\b` + tok + `\b`)
	}
	return regexp.MustCompile(regexp.QuoteMeta(tok))
}

type lessCtx struct {
	p          *pkgInfo
	site       string
	aTok, bTok string
	depth      int
	aliases    [][2]string // local name -> normalised expression (al := a.Location)
}

func (c *lessCtx) norm(e ast.Expr) string {
	s := src(c.p, e)
	for _, al := range c.aliases {
		s = tokRegexp(al[0]).ReplaceAllString(s, al[1])
	}
	s = tokRegexp(c.aTok).ReplaceAllString(s, "§A")
	s = tokRegexp(c.bTok).ReplaceAllString(s, "§B")
	return strings.Join(strings.Fields(s), "")
}

func swapAB(s string) string {
	s = strings.ReplaceAll(s, "§A", "§T")
	s = strings.ReplaceAll(s, "§B", "§A")
	return strings.ReplaceAll(s, "§T", "§B")
}

// comparison "X < Y" / "X > Y" of the a-side with the b-side -> one key field
func (c *lessCtx) fieldOfCompare(be *ast.BinaryExpr) (keyField, bool) {
	if be.Op != token.LSS && be.Op != token.GTR {
		return keyField{}, false
	}
	l, r := c.norm(be.X), c.norm(be.Y)
	if !strings.Contains(l, "§A") || swapAB(l) != r {
		return keyField{}, false
	}
	return keyField{text: l, desc: be.Op == token.GTR}, true
}

// helper(x, y): either the whole items (inline the helper) or two fields (atomic field "helper(x)")
func (c *lessCtx) fieldsOfCall(ce *ast.CallExpr) ([]keyField, bool) {
	if len(ce.Args) != 2 {
		return nil, false
	}
	name := selName(ce.Fun)
	l, r := c.norm(ce.Args[0]), c.norm(ce.Args[1])
	if swapAB(l) != r || !strings.Contains(l, "§A") {
		return nil, false
	}
	if l == "§A" {
		fd := findFunc(c.p, "", "", name)
		if fd == nil || fd.Type.Params == nil || c.depth > 3 {
			return nil, false
		}
		var params []string
		for _, f := range fd.Type.Params.List {
			for _, n := range f.Names {
				params = append(params, n.Name)
			}
		}
		if len(params) != 2 {
			return nil, false
		}
		sub := &lessCtx{p: c.p, site: c.site + "/" + name, aTok: params[0], bTok: params[1], depth: c.depth + 1}
		return sub.extract(fd.Body)
	}
	return []keyField{{text: name + "(" + l + ")", desc: false}}, true
}

func isGuard(cond string) bool {
	return strings.Contains(cond, "nil") || strings.Contains(cond, "len(")
}

// extract reads the key sequence of a `less` body written as an if-chain.
func (c *lessCtx) extract(body *ast.BlockStmt) ([]keyField, bool) {
	var keys []keyField
	for i, st := range body.List {
		switch s := st.(type) {
		case *ast.IfStmt:
			if s.Init != nil || s.Else != nil || len(s.Body.List) != 1 {
				fail("det %s: unsupported if statement in less function", c.site)
				return nil, false
			}
			ret, ok := s.Body.List[0].(*ast.ReturnStmt)
			if !ok || len(ret.Results) != 1 {
				fail("det %s: if body is not a single return", c.site)
				return nil, false
			}
			// the condition: X != Y, or !almostEqual(X, Y); anything mentioning nil/len is a guard
			var cl, cr string
			switch cond := s.Cond.(type) {
			case *ast.BinaryExpr:
				if cond.Op == token.NEQ {
					cl, cr = c.norm(cond.X), c.norm(cond.Y)
				}
			case *ast.UnaryExpr:
				if call, ok := cond.X.(*ast.CallExpr); ok && cond.Op == token.NOT && selName(call.Fun) == "almostEqual" && len(call.Args) == 2 {
					cl, cr = c.norm(call.Args[0]), c.norm(call.Args[1])
				}
			}
			if cl == "" {
				ct := c.norm(s.Cond)
				if isGuard(ct) || ct == "§A==§B" {
					continue // nil / emptiness guard, not part of the order on well-formed items
				}
				fail("det %s: unsupported condition %s", c.site, ct)
				return nil, false
			}
			if isGuard(cl + cr) {
				continue
			}
			if swapAB(cl) != cr {
				fail("det %s: condition does not compare the same field of both items: %s vs %s", c.site, cl, cr)
				return nil, false
			}
			switch r := ret.Results[0].(type) {
			case *ast.BinaryExpr:
				k, ok := c.fieldOfCompare(r)
				if !ok || !strings.Contains(k.text, cl) {
					fail("det %s: return does not compare the field tested by the condition (%s)", c.site, cl)
					return nil, false
				}
				keys = append(keys, k)
			case *ast.CallExpr:
				ks, ok := c.fieldsOfCall(r)
				if !ok {
					fail("det %s: unsupported helper call in return", c.site)
					return nil, false
				}
				keys = append(keys, ks...)
			default:
				fail("det %s: unsupported return in if", c.site)
				return nil, false
			}
		case *ast.ReturnStmt:
			if i != len(body.List)-1 || len(s.Results) != 1 {
				fail("det %s: return in the middle of less function", c.site)
				return nil, false
			}
			switch r := s.Results[0].(type) {
			case *ast.BinaryExpr:
				k, ok := c.fieldOfCompare(r)
				if !ok {
					fail("det %s: final return is not a comparison of one field", c.site)
					return nil, false
				}
				keys = append(keys, k)
			case *ast.CallExpr:
				ks, ok := c.fieldsOfCall(r)
				if !ok {
					fail("det %s: unsupported helper call in final return", c.site)
					return nil, false
				}
				keys = append(keys, ks...)
			default:
				fail("det %s: unsupported final return", c.site)
				return nil, false
			}
		case *ast.AssignStmt:
			// local aliases: al, bl := a.Location, b.Location
			if len(s.Lhs) == 2 && len(s.Rhs) == 2 {
				l, r := c.norm(s.Rhs[0]), c.norm(s.Rhs[1])
				li, ok1 := s.Lhs[0].(*ast.Ident)
				ri, ok2 := s.Lhs[1].(*ast.Ident)
				if ok1 && ok2 && strings.Contains(l, "§A") && swapAB(l) == r {
					c.aliases = append(c.aliases, [2]string{li.Name, l}, [2]string{ri.Name, r})
				}
			}
		case *ast.DeclStmt:
			// tables (riskOrder := map...)
		default:
			fail("det %s: unsupported statement in less function", c.site)
			return nil, false
		}
	}
	return keys, true
}

// nthSortSlice returns the n-th `sort.Slice(x, func(i, j int) bool {...})` call inside fd.
// isSortSliceCall: sort.Slice(x, less) or sort.SliceStable(x, less) (the order of distinct keys is the same).
func isSortSliceCall(ce *ast.CallExpr) bool {
	n := selName(ce.Fun)
	return (n == "sort.Slice" || n == "sort.SliceStable") && len(ce.Args) == 2
}

// nthSortCall returns the n-th sort.Slice / sort.SliceStable call with a function literal inside fd.
func nthSortCall(fd *ast.FuncDecl, n int) (*ast.CallExpr, *ast.FuncLit) {
	k := 0
	var call *ast.CallExpr
	var lit *ast.FuncLit
	ast.Inspect(fd.Body, func(nd ast.Node) bool {
		ce, ok := nd.(*ast.CallExpr)
		if !ok || !isSortSliceCall(ce) {
			return true
		}
		fl, ok := ce.Args[1].(*ast.FuncLit)
		if !ok {
			return true
		}
		if k == n && lit == nil {
			call, lit = ce, fl
		}
		k++
		return true
	})
	return call, lit
}

func nthSortSlice(p *pkgInfo, fd *ast.FuncDecl, n int) (*ast.FuncLit, string, string) {
	k := 0
	var lit *ast.FuncLit
	var aTok, bTok string
	ast.Inspect(fd.Body, func(nd ast.Node) bool {
		ce, ok := nd.(*ast.CallExpr)
		if !ok || !isSortSliceCall(ce) {
			return true
		}
		fl, ok := ce.Args[1].(*ast.FuncLit)
		if !ok {
			return true
		}
		if k == n && lit == nil {
			var ps []string
			for _, f := range fl.Type.Params.List {
				for _, nm := range f.Names {
					ps = append(ps, nm.Name)
				}
			}
			if len(ps) == 2 {
				x := src(p, ce.Args[0])
				lit, aTok, bTok = fl, x+"["+ps[0]+"]", x+"["+ps[1]+"]"
			}
		}
		k++
		return true
	})
	return lit, aTok, bTok
}

type sortSite struct {
	name            string
	dir, file, recv string
	fn              string
	nth             int // which sort.Slice inside fn; -1: closure assigned to `closure`; -2: fn itself is the less function
	closure         string
	aTok, bTok      string            // for nth == -2
	fields          map[string]int    // normalised field text -> field index of the model's item
	kinds           map[string]string // normalised field text -> how to build values for it (semantic reading, gen_det_eval); nil: syntactic only
}

func emitKey(b *strings.Builder, name string, keys []keyField, fields map[string]int, site string) {
	var parts []string
	for _, k := range keys {
		idx, ok := fields[k.text]
		if !ok {
			fail("det %s: the less function compares a field the model does not know: %s", site, k.text)
			return
		}
		parts = append(parts, fmt.Sprintf("(%d%%nat, %v)", idx, k.desc))
	}
	fmt.Fprintf(b, "Definition key_%s : list (nat * bool) := [%s].\n", name, strings.Join(parts, "; "))
}

// sortedBeforeRange: inside fn, `sort.Strings(keys)` is called and every `range` over one of the
// named map expressions only collects keys (`keys = append(keys, k)`).
func sortedBeforeRange(p *pkgInfo, fd *ast.FuncDecl, mapExprs []string, viaCall string) bool {
	hasSort := false
	okRanges := true
	seenMap := false
	ast.Inspect(fd.Body, func(nd ast.Node) bool {
		switch x := nd.(type) {
		case *ast.CallExpr:
			if selName(x.Fun) == "sort.Strings" {
				hasSort = true
			}
			if viaCall != "" && strings.HasSuffix(selName(x.Fun), viaCall) {
				hasSort = true
				seenMap = true
			}
		case *ast.RangeStmt:
			xs := strings.Join(strings.Fields(src(p, x.X)), "")
			for _, m := range mapExprs {
				if xs == m {
					seenMap = true
					collectOnly := len(x.Body.List) == 1
					if collectOnly {
						as, ok := x.Body.List[0].(*ast.AssignStmt)
						collectOnly = ok && len(as.Rhs) == 1
						if collectOnly {
							ce, ok := as.Rhs[0].(*ast.CallExpr)
							collectOnly = ok && selName(ce.Fun) == "append"
						}
					}
					if !collectOnly {
						okRanges = false
					}
				}
			}
		}
		return true
	})
	if viaCall != "" {
		return hasSort && okRanges
	}
	return hasSort && okRanges && seenMap
}

// intConstIn finds `name := <int>` or a call argument / comparison constant described by a matcher.
func assignedInt(fd *ast.FuncDecl, name string) (int64, bool) {
	var v int64
	found := false
	ast.Inspect(fd.Body, func(nd ast.Node) bool {
		as, ok := nd.(*ast.AssignStmt)
		if !ok || len(as.Lhs) != 1 || len(as.Rhs) != 1 {
			return true
		}
		if id, ok := as.Lhs[0].(*ast.Ident); ok && id.Name == name && as.Tok == token.DEFINE {
			if n, ok := intLit(as.Rhs[0]); ok && !found {
				v, found = n, true
			}
		}
		return true
	})
	return v, found
}

func init() {
	generators = append(generators, func() {
		var b strings.Builder
		b.WriteString("From Coq Require Import Bool.\nOpen Scope nat_scope.\n\n")
		pkgs := map[string]*pkgInfo{}
		get := func(dir string) *pkgInfo {
			if p, ok := pkgs[dir]; ok {
				return p
			}
			p := loadPkg(dir)
			pkgs[dir] = p
			return p
		}

		fnFields := map[string]int{"§A.Metrics.Complexity": 0, "§A.FilePath": 1, "§A.StartLine": 2, "§A.Name": 3, "riskOrder[§A.RiskLevel]": 4}
		fnKinds := map[string]string{"§A.Metrics.Complexity": "int", "§A.FilePath": "str", "§A.StartLine": "int", "§A.Name": "str", "riskOrder[§A.RiskLevel]": "keys:riskOrder"}
		clsKinds := map[string]string{"§A.Metrics.CouplingCount": "int", "§A.FilePath": "str", "§A.StartLine": "int", "§A.Name": "str", "riskOrder[§A.RiskLevel]": "keys:riskOrder"}
		clsFields := map[string]int{"§A.Metrics.CouplingCount": 0, "§A.FilePath": 1, "§A.StartLine": 2, "§A.Name": 3, "riskOrder[§A.RiskLevel]": 4}
		sites := []sortSite{
			{name: "complexity_by_complexity", dir: "service", file: "complexity_service.go", recv: "ComplexityServiceImpl", fn: "sortByComplexity", fields: fnFields, kinds: fnKinds},
			{name: "complexity_by_name", dir: "service", file: "complexity_service.go", recv: "ComplexityServiceImpl", fn: "sortByName", fields: fnFields, kinds: fnKinds},
			{name: "complexity_by_risk", dir: "service", file: "complexity_service.go", recv: "ComplexityServiceImpl", fn: "sortByRisk", fields: fnFields, kinds: fnKinds},
			{name: "cbo_by_coupling", dir: "service", file: "cbo_service.go", recv: "CBOServiceImpl", fn: "sortClasses", nth: 0, fields: clsFields, kinds: clsKinds},
			{name: "cbo_by_name", dir: "service", file: "cbo_service.go", recv: "CBOServiceImpl", fn: "sortClasses", nth: 1, fields: clsFields, kinds: clsKinds},
			{name: "cbo_by_risk", dir: "service", file: "cbo_service.go", recv: "CBOServiceImpl", fn: "sortClasses", nth: 2, fields: clsFields, kinds: clsKinds},
			{name: "cbo_by_location", dir: "service", file: "cbo_service.go", recv: "CBOServiceImpl", fn: "sortClasses", nth: 3, fields: clsFields, kinds: clsKinds},
			{name: "cbo_default", dir: "service", file: "cbo_service.go", recv: "CBOServiceImpl", fn: "sortClasses", nth: 4, fields: clsFields, kinds: clsKinds},
			{name: "cbo_top", dir: "service", file: "cbo_service.go", recv: "CBOServiceImpl", fn: "generateSummary", fields: clsFields, kinds: clsKinds},
			{name: "dead_findings", dir: "internal/analyzer", file: "dead_code.go", recv: "DeadCodeDetector", fn: "Detect",
				fields: map[string]int{"§A.StartLine": 0, "§A.EndLine": 1, "§A.BlockID": 2},
				kinds:  map[string]string{"§A.StartLine": "int", "§A.EndLine": "int", "§A.BlockID": "str"}},
			{name: "dead_closer", dir: "internal/analyzer", file: "dead_code.go", recv: "DeadCodeDetector", fn: "findTerminatorInPredecessors", nth: -1, closure: "closer",
				fields: map[string]int{"dcd.getBlockEndLine(§A)": 0, "§A.ID": 1},
				kinds:  map[string]string{"dcd.getBlockEndLine(§A)": "blockend", "§A.ID": "str"}},
			{name: "cycles", dir: "internal/analyzer", file: "circular_detector.go", recv: "CircularDependencyDetector", fn: "processComponents",
				fields: map[string]int{"cdd.severityOrder(§A.Severity)": 0, "§A.Size": 1, "§A.Modules[0]": 2},
				kinds:  map[string]string{"cdd.severityOrder(§A.Severity)": "consts:CycleSeverity", "§A.Size": "int", "§A.Modules[0]": "str"}},
			{name: "refactor_priority", dir: "internal/analyzer", file: "coupling_metrics.go", recv: "CouplingMetricsCalculator", fn: "identifyRefactoringPriorities",
				fields: map[string]int{"§A.priority": 0, "§A.module": 1},
				kinds:  map[string]string{"§A.priority": "float", "§A.module": "str"}},
			{name: "chains", dir: "service", file: "system_analysis_service.go", recv: "SystemAnalysisServiceImpl", fn: "findLongestChains",
				fields: map[string]int{"§A.Length": 0, "dependencyPathLess(§A.Path)": 1},
				kinds:  map[string]string{"§A.Length": "int", "dependencyPathLess(§A.Path)": "strs"}},
			{name: "clone_pairs", dir: "internal/analyzer", file: "clone_detector.go", recv: "CloneDetector", fn: "limitAndSortClonePairs",
				fields: map[string]int{"§A.Similarity": 0, "fragmentLess(§A.Fragment1)": 1, "fragmentLess(§A.Fragment2)": 2},
				kinds:  map[string]string{"§A.Similarity": "float", "fragmentLess(§A.Fragment1)": "frag", "fragmentLess(§A.Fragment2)": "frag"}},
			{name: "groups_connected", dir: "internal/analyzer", file: "connected_grouping.go", recv: "ConnectedGrouping", fn: "GroupClones", nth: 1,
				fields: map[string]int{"§A.Similarity": 0, "§A.Size": 1, "fragmentLess(§A.Fragments[0])": 2},
				kinds:  map[string]string{"§A.Similarity": "float", "§A.Size": "int", "fragmentLess(§A.Fragments[0])": "frag"}},
			{name: "groups_centroid", dir: "internal/analyzer", file: "centroid_grouping.go", recv: "CentroidGrouping", fn: "GroupClones", nth: 1,
				fields: map[string]int{"§A.Similarity": 0, "§A.Size": 1, "fragmentLess(§A.Fragments[0])": 2},
				kinds:  map[string]string{"§A.Similarity": "float", "§A.Size": "int", "fragmentLess(§A.Fragments[0])": "frag"}},
			{name: "fragment_less", dir: "internal/analyzer", file: "star_medoid_grouping.go", fn: "fragmentLess", nth: -2, aTok: "a", bTok: "b",
				fields: map[string]int{"§A.Location.FilePath": 0, "§A.Location.StartLine": 1, "§A.Location.StartCol": 2, "§A.Location.EndLine": 3, "§A.Location.EndCol": 4},
				kinds:  map[string]string{"§A.Location.FilePath": "str", "§A.Location.StartLine": "int", "§A.Location.StartCol": "int", "§A.Location.EndLine": "int", "§A.Location.EndCol": "int"}},
		}
		for _, s := range sites {
			p := get(s.dir)
			fd := findFunc(p, s.file, s.recv, s.fn)
			if fd == nil {
				fail("det %s: function %s.%s not found in %s/%s", s.name, s.recv, s.fn, s.dir, s.file)
				continue
			}
			recordDigest(p, s.file, s.recv, s.fn)
			// semantic reading first (det_eval.go); the syntactic reader below only where that route cannot be set up
			if s.kinds != nil {
				keys, err := semanticSite(p, s, fd)
				if err == nil {
					emitKey(&b, s.name, keys, s.fields, s.name)
					continue
				}
				if _, un := err.(*errUnavailable); !un {
					continue // reported
				}
				if os.Getenv("VERIFGEN_DEBUG") != "" {
					fmt.Fprintf(os.Stderr, "det %s: semantic route unavailable: %v\n", s.name, err)
				}
			}
			var body *ast.BlockStmt
			ctx := &lessCtx{p: p, site: s.name}
			switch s.nth {
			case -2:
				body, ctx.aTok, ctx.bTok = fd.Body, s.aTok, s.bTok
			case -1:
				ast.Inspect(fd.Body, func(nd ast.Node) bool {
					as, ok := nd.(*ast.AssignStmt)
					if !ok || len(as.Lhs) != 1 || len(as.Rhs) != 1 {
						return true
					}
					id, ok1 := as.Lhs[0].(*ast.Ident)
					fl, ok2 := as.Rhs[0].(*ast.FuncLit)
					if ok1 && ok2 && id.Name == s.closure && body == nil {
						var ps []string
						for _, f := range fl.Type.Params.List {
							for _, nm := range f.Names {
								ps = append(ps, nm.Name)
							}
						}
						if len(ps) == 2 {
							body, ctx.aTok, ctx.bTok = fl.Body, ps[0], ps[1]
						}
					}
					return true
				})
			default:
				lit, a, bt := nthSortSlice(p, fd, s.nth)
				if lit != nil {
					body, ctx.aTok, ctx.bTok = lit.Body, a, bt
				}
			}
			if body == nil {
				fail("det %s: comparison function not found in %s", s.name, s.fn)
				continue
			}
			keys, ok := ctx.extract(body)
			if !ok {
				continue
			}
			emitKey(&b, s.name, keys, s.fields, s.name)
		}

		// majorityCloneType: `c > maxC || (c == maxC && t < best)`  ->  count descending, type ascending
		{
			p := get("internal/analyzer")
			fd := findFunc(p, "connected_grouping.go", "", "majorityCloneType")
			var keys []keyField
			if fd != nil {
				recordDigest(p, "connected_grouping.go", "", "majorityCloneType")
				ast.Inspect(fd.Body, func(nd ast.Node) bool {
					is, ok := nd.(*ast.IfStmt)
					if !ok || keys != nil {
						return true
					}
					switch cond := is.Cond.(type) {
					case *ast.BinaryExpr:
						if cond.Op == token.GTR && src(p, cond.X) == "c" && src(p, cond.Y) == "maxC" {
							keys = []keyField{{text: "c", desc: true}}
						}
						if cond.Op == token.LOR {
							l, ok1 := cond.X.(*ast.BinaryExpr)
							var r *ast.BinaryExpr
							if pe, ok := cond.Y.(*ast.ParenExpr); ok {
								r, _ = pe.X.(*ast.BinaryExpr)
							}
							if ok1 && l.Op == token.GTR && src(p, l.X) == "c" && src(p, l.Y) == "maxC" {
								keys = []keyField{{text: "c", desc: true}}
								if r != nil && r.Op == token.LAND {
									e, ok2 := r.X.(*ast.BinaryExpr)
									t, ok3 := r.Y.(*ast.BinaryExpr)
									if ok2 && ok3 && e.Op == token.EQL && src(p, e.X) == "c" && src(p, e.Y) == "maxC" &&
										(t.Op == token.LSS || t.Op == token.GTR) && src(p, t.X) == "t" && src(p, t.Y) == "best" {
										keys = append(keys, keyField{text: "t", desc: t.Op == token.GTR})
									}
								}
							}
						}
					}
					return true
				})
			}
			if keys == nil {
				fail("det majority_type: selection condition not found in majorityCloneType")
			} else {
				emitKey(&b, "majority_type", keys, map[string]int{"c": 0, "t": 1}, "majority_type")
			}
		}

		// places that must sort the keys of a map before ranging over it
		type rangeSite struct {
			name, dir, file, recv, fn string
			maps                      []string
			viaCall                   string
		}
		rsites := []rangeSite{
			{"dead_functions_service", "service", "dead_code_service.go", "DeadCodeServiceImpl", "analyzeFile", []string{"cfgs"}, ""},
			{"complexity_functions", "service", "complexity_service.go", "ComplexityServiceImpl", "analyzeFile", []string{"cfgs"}, ""},
			{"cbo_classes", "internal/analyzer", "cbo.go", "CBOAnalyzer", "AnalyzeClasses", []string{"classes"}, ""},
			{"cbo_dependents", "internal/analyzer", "cbo.go", "CBOAnalyzer", "mapToSlice", []string{"m"}, ""},
			{"cycle_chains", "internal/analyzer", "circular_detector.go", "CircularDependencyDetector", "findDependencyChains", []string{"node.Dependencies"}, ""},
			{"metric_modules", "internal/analyzer", "coupling_metrics.go", "CouplingMetricsCalculator", "sortedMetricModules", []string{"calc.graph.ModuleMetrics"}, ""},
			{"system_sums", "internal/analyzer", "coupling_metrics.go", "CouplingMetricsCalculator", "calculateSystemMetrics", []string{"calc.graph.ModuleMetrics"}, "sortedMetricModules"},
			{"system_variance", "internal/analyzer", "coupling_metrics.go", "CouplingMetricsCalculator", "calculateSystemComplexity", []string{"calc.graph.ModuleMetrics"}, "sortedMetricModules"},
			{"service_sums", "service", "system_analysis_service.go", "SystemAnalysisServiceImpl", "extractCouplingResult", []string{"graph.ModuleMetrics"}, ""},
			{"chain_roots", "service", "system_analysis_service.go", "SystemAnalysisServiceImpl", "findLongestChains", []string{"graph.Nodes"}, "GetModuleNames"},
			{"module_names", "internal/analyzer", "dependency_graph.go", "DependencyGraph", "GetModuleNames", []string{"g.Nodes"}, ""},
			{"chain_succs", "service", "system_analysis_service.go", "SystemAnalysisServiceImpl", "findPathsFromModule", []string{"node.Dependencies"}, ""},
		}
		for _, r := range rsites {
			p := get(r.dir)
			fd := findFunc(p, r.file, r.recv, r.fn)
			if fd == nil {
				fail("det %s: function %s.%s not found", r.name, r.recv, r.fn)
				continue
			}
			recordDigest(p, r.file, r.recv, r.fn)
			fmt.Fprintf(&b, "Definition sorted_%s : bool := %v.\n", r.name, sortedBeforeRange(p, fd, r.maps, r.viaCall))
		}

		// group ids are assigned after the final sort (renumberGroups is the last statement before return)
		for _, g := range []struct{ name, file, recv string }{
			{"connected", "connected_grouping.go", "ConnectedGrouping"},
			{"complete_linkage", "complete_linkage_grouping.go", "CompleteLinkageGrouping"},
			{"star", "star_medoid_grouping.go", "StarMedoidGrouping"},
			{"centroid", "centroid_grouping.go", "CentroidGrouping"},
		} {
			p := get("internal/analyzer")
			fd := findFunc(p, g.file, g.recv, "GroupClones")
			ok := false
			if fd != nil {
				recordDigest(p, g.file, g.recv, "GroupClones")
				lastSort, renum := token.NoPos, token.NoPos
				ast.Inspect(fd.Body, func(nd ast.Node) bool {
					if ce, isCall := nd.(*ast.CallExpr); isCall {
						switch selName(ce.Fun) {
						case "sort.Slice", "sort.SliceStable":
							if ce.Pos() > lastSort {
								lastSort = ce.Pos()
							}
						case "renumberGroups":
							renum = ce.Pos()
						}
					}
					return true
				})
				ok = renum != token.NoPos && renum > lastSort
			}
			fmt.Fprintf(&b, "Definition ids_after_sort_%s : bool := %v.\n", g.name, ok)
		}

		// cut-off constants
		{
			p := get("service")
			if fd := findFunc(p, "cbo_service.go", "CBOServiceImpl", "generateSummary"); fd != nil {
				if v, ok := assignedInt(fd, "maxTopClasses"); ok {
					fmt.Fprintf(&b, "Definition cbo_top_n : nat := %d.\n", v)
				} else {
					fail("det: maxTopClasses not found")
				}
			}
			// findLongestChains(graph, N)
			found := false
			for _, f := range p.files {
				ast.Inspect(f, func(nd ast.Node) bool {
					ce, ok := nd.(*ast.CallExpr)
					if ok && strings.HasSuffix(selName(ce.Fun), ".findLongestChains") && len(ce.Args) == 2 && !found {
						if v, ok := intLit(ce.Args[1]); ok {
							fmt.Fprintf(&b, "Definition chain_limit : nat := %d.\n", v)
							found = true
						}
					}
					return true
				})
			}
			if !found {
				fail("det: call of findLongestChains with a literal limit not found")
			}
			pa := get("internal/analyzer")
			if fd := findFunc(pa, "coupling_metrics.go", "CouplingMetricsCalculator", "identifyRefactoringPriorities"); fd != nil {
				if v, ok := assignedInt(fd, "maxResults"); ok {
					fmt.Fprintf(&b, "Definition refactor_top_n : nat := %d.\n", v)
				} else {
					fail("det: maxResults not found")
				}
			}
		}
		// the line window of findTerminatorInPredecessors (a terminating block that ends g lines before the dead block starts is
		// taken as its reason for 1 <= g <= N): read by running the function on a two-block CFG, terminator lookup stubbed
		{
			pa := get("internal/analyzer")
			fd := findFunc(pa, "dead_code.go", "DeadCodeDetector", "findTerminatorInPredecessors")
			if fd == nil {
				fail("det: findTerminatorInPredecessors not found")
			} else {
				in := newInterp(pa)
				in.Extern = func(c *CallCtx) ([]Value, bool) {
					if c.Name == "dcd.blockTerminatorReason" && c.NArgs() == 1 {
						if blk, _ := c.Arg(0).(*Struct); blk != nil {
							if r, ok := blk.F["reason__"]; ok {
								return []Value{r}, true
							}
						}
						return []Value{""}, true
					}
					return nil, false
				}
				block := func(id string, start, end int64, reason string) *Struct {
					return mkStruct("BasicBlock", "ID", id, "reason__", reason, "Predecessors", nil,
						"Statements", mkSlice(mkStruct("Node", "Location", mkStruct("Location", "StartLine", start, "EndLine", end))))
				}
				const start = 100
				var gaps []int64
				var vals []string
				bad := false
				for g := int64(-3); g <= 60 && !bad; g++ {
					dead := block("dead", start, start+2, "")
					other := block("other", start-g-1, start-g, "TERMINATOR")
					dcd := mkStruct("DeadCodeDetector", "cfg", mkStruct("CFG", "Blocks", &Map{M: map[interface{}]Value{"dead": dead, "other": other}}))
					vs, err := in.CallFunc(pa, fd, dcd, dead)
					if err != nil || len(vs) != 2 {
						fail("det: findTerminatorInPredecessors cannot be evaluated: %v", err)
						bad = true
						break
					}
					gaps = append(gaps, g)
					if vs[0] == "TERMINATOR" {
						vals = append(vals, "in")
					} else {
						vals = append(vals, "out")
					}
				}
				if !bad {
					segs := stepSegments(gaps, vals)
					if len(segs) == 3 && segs[0].val == "out" && segs[1].val == "in" && segs[1].from == 1 && segs[2].val == "out" {
						fmt.Fprintf(&b, "Definition dead_window : Z := %d%%Z.\n", segs[2].from-1)
					} else {
						fail("det: the line window of findTerminatorInPredecessors is not `1 <= gap <= N`")
					}
				}
			}
		}
		recordDigest(get("service"), "system_analysis_service.go", "", "dependencyPathLess")
		recordDigest(get("service"), "system_analysis_service.go", "SystemAnalysisServiceImpl", "findPathsFromModule")
		recordDigest(get("internal/analyzer"), "grouping_strategy.go", "", "renumberGroups")
		recordDigest(get("app"), "analyze_usecase.go", "AnalyzeUseCase", "Execute")
		writeGen("DetConst.v", b.String())
	})
}
