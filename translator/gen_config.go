package main

// gen_config.go: everything the configuration-precedence model (property C17, coq/Cli/Config.v and
// coq/Cli/Discovery.v) does not want to hard-code -> coq/Gen/ConfigConst.v.
//
// Read off the Go AST:
//   * cobra flag defaults of `pyscn analyze`      cmd.Flags().IntVar(&c.minComplexity, "min-complexity", 5, ...)
//   * which analyze flags are tested with Flags().Changed and wrapped by service.WithExplicit...
//   * hard-wired request values                   app/analyze_usecase.go createAnalysisTasks (LowThreshold: 9, MinCBO: config.MinCBO ...)
//   * merge sentinels                             service/*config_loader.go MergeConfig, app/clone_usecase.go mergeConfiguration
//   * "key present" tests of the TOML loader      internal/config/pyproject_loader.go merge*Section (pointer != nil, > 0, != "")
//   * defaults of the file side                   internal/config/pyscn_config.go DefaultPyscnConfig
//   * discovery order                             internal/config/toml_loader.go FindConfigFileFromPath / ResolveConfigPath

import (
	"fmt"
	"go/ast"
	"go/constant"
	"go/token"
	"strconv"
	"strings"
)

// constDecl finds the value expression of a package-level constant.
func constDecl(p *pkgInfo, name string) ast.Expr {
	for _, f := range p.files {
		for _, d := range f.Decls {
			gd, ok := d.(*ast.GenDecl)
			if !ok || gd.Tok != token.CONST {
				continue
			}
			for _, s := range gd.Specs {
				vs := s.(*ast.ValueSpec)
				for i, n := range vs.Names {
					if n.Name == name && i < len(vs.Values) {
						return vs.Values[i]
					}
				}
			}
		}
	}
	return nil
}

type resolver struct {
	dom *pkgInfo
}

// num renders e (a literal, domain.X, or a constant of package p that aliases one) as a Coq term.
// kind is "Z" or "Q". The result mentions domain constants by their Gen/DomainConst.v names.
func (r *resolver) num(p *pkgInfo, e ast.Expr, kind string, depth int) (string, bool) {
	if depth > 5 || e == nil {
		return "", false
	}
	switch x := e.(type) {
	case *ast.ParenExpr:
		return r.num(p, x.X, kind, depth+1)
	case *ast.UnaryExpr, *ast.BasicLit:
		if v, ok := intLit(e); ok {
			if kind == "Q" {
				return fmt.Sprintf("((%d) # 1)%%Q", v), true
			}
			return fmt.Sprintf("(%d)%%Z", v), true
		}
		if bl, ok := e.(*ast.BasicLit); ok && bl.Kind == token.FLOAT && kind == "Q" {
			return coqQ(constant.MakeFromLiteral(bl.Value, token.FLOAT, 0))
		}
		return "", false
	case *ast.SelectorExpr:
		if id, ok := x.X.(*ast.Ident); ok && id.Name == "domain" {
			if constDecl(r.dom, x.Sel.Name) == nil {
				return "", false
			}
			return "domain_" + x.Sel.Name, true
		}
	case *ast.Ident:
		if p == r.dom {
			if constDecl(r.dom, x.Name) == nil {
				return "", false
			}
			return "domain_" + x.Name, true
		}
		if v := constDecl(p, x.Name); v != nil {
			return r.num(p, v, kind, depth+1)
		}
	}
	return "", false
}

// str resolves e to a string constant (literal, domain.X, alias).
func (r *resolver) str(p *pkgInfo, e ast.Expr, depth int) (string, bool) {
	if depth > 5 || e == nil {
		return "", false
	}
	switch x := e.(type) {
	case *ast.BasicLit:
		if x.Kind == token.STRING {
			s, err := strconv.Unquote(x.Value)
			return s, err == nil
		}
	case *ast.SelectorExpr:
		if id, ok := x.X.(*ast.Ident); ok && id.Name == "domain" {
			return r.str(r.dom, constDecl(r.dom, x.Sel.Name), depth+1)
		}
	case *ast.Ident:
		return r.str(p, constDecl(p, x.Name), depth+1)
	}
	return "", false
}

// compositeAll returns field -> expr for every composite literal of the named type in fd, in source order.
func compositeAll(fd *ast.FuncDecl, typ string) []map[string]ast.Expr {
	var res []map[string]ast.Expr
	ast.Inspect(fd, func(nd ast.Node) bool {
		cl, ok := nd.(*ast.CompositeLit)
		if !ok || selName(cl.Type) != typ {
			return true
		}
		m := map[string]ast.Expr{}
		for _, el := range cl.Elts {
			if kv, ok := el.(*ast.KeyValueExpr); ok {
				if id, ok := kv.Key.(*ast.Ident); ok {
					m[id.Name] = kv.Value
				}
			}
		}
		res = append(res, m)
		return true
	})
	return res
}

type cmpHit struct {
	op  token.Token
	rhs ast.Expr
}

// cmpsOn collects every comparison `lhs OP rhs` in n whose left operand prints as lhs.
func cmpsOn(n ast.Node, lhs string) []cmpHit {
	var hits []cmpHit
	ast.Inspect(n, func(nd ast.Node) bool {
		be, ok := nd.(*ast.BinaryExpr)
		if !ok {
			return true
		}
		if _, isCmp := coqCmp(be.Op); isCmp && selName(be.X) == lhs {
			hits = append(hits, cmpHit{be.Op, be.Y})
		}
		return true
	})
	return hits
}

func isNil(e ast.Expr) bool {
	id, ok := e.(*ast.Ident)
	return ok && id.Name == "nil"
}

func qCmp(op token.Token, rhs string) (string, bool) {
	switch op {
	case token.GTR:
		return fmt.Sprintf("negb (Qle_bool a %s)", rhs), true
	case token.GEQ:
		return fmt.Sprintf("Qle_bool %s a", rhs), true
	case token.NEQ:
		return fmt.Sprintf("negb (Qeq_bool a %s)", rhs), true
	}
	return "", false
}

func zCmp(op token.Token, rhs string) (string, bool) {
	switch op {
	case token.GTR:
		return fmt.Sprintf("Z.gtb a %s", rhs), true
	case token.GEQ:
		return fmt.Sprintf("Z.geb a %s", rhs), true
	case token.NEQ:
		return fmt.Sprintf("negb (Z.eqb a %s)", rhs), true
	}
	return "", false
}

func init() {
	generators = append(generators, func() {
		var b strings.Builder
		cmd := loadPkg("cmd/pyscn")
		dom := loadPkg("domain")
		svc := loadPkg("service")
		appp := loadPkg("app")
		cfg := loadPkg("internal/config")
		if cmd == nil || dom == nil || svc == nil || appp == nil || cfg == nil {
			fail("gen_config: packages not loadable")
			return
		}
		r := &resolver{dom: dom}
		b.WriteString("From PV Require Import Gen.DomainConst Gen.CheckConst.\nOpen Scope Z_scope.\n\n")

		dl, _, okl := levelTable(dom, "dead_code.go", "DeadCodeSeverity")
		if !okl {
			fail("gen_config: DeadCodeSeverity.Level table not found")
			return
		}
		// severity constant name -> its string value, and string -> level
		sevOfString := map[string]int64{}
		for name, lvl := range dl {
			if s, ok := r.str(dom, constDecl(dom, name), 0); ok {
				sevOfString[s] = lvl
			}
		}
		sevLevelOfExpr := func(p *pkgInfo, e ast.Expr, what string) int64 {
			n := strings.TrimPrefix(selName(e), "domain.")
			if v, ok := dl[n]; ok {
				return v
			}
			if s, ok := r.str(p, e, 0); ok {
				if v, ok := sevOfString[s]; ok {
					return v
				}
			}
			fail("gen_config: %s is not a known severity (%s)", what, selName(e))
			return 0
		}

		// ---- analyze: cobra flag defaults --------------------------------------------------------
		ac := findFunc(cmd, "analyze.go", "AnalyzeCommand", "CreateCobraCommand")
		if ac == nil {
			fail("gen_config: AnalyzeCommand.CreateCobraCommand not found")
			return
		}
		flagDefault := map[string]ast.Expr{}
		flagKind := map[string]string{}
		flagField := map[string]string{}
		ast.Inspect(ac, func(nd ast.Node) bool {
			ce, ok := nd.(*ast.CallExpr)
			if !ok {
				return true
			}
			se, ok := ce.Fun.(*ast.SelectorExpr)
			if !ok {
				return true
			}
			switch se.Sel.Name {
			case "IntVar", "StringVar", "Float64Var", "BoolVar":
			default:
				return true
			}
			if len(ce.Args) < 3 {
				return true
			}
			nl, ok := ce.Args[1].(*ast.BasicLit)
			if !ok || nl.Kind != token.STRING {
				return true
			}
			name, _ := strconv.Unquote(nl.Value)
			flagDefault[name] = ce.Args[2]
			flagKind[name] = se.Sel.Name
			if u, ok := ce.Args[0].(*ast.UnaryExpr); ok && u.Op == token.AND {
				flagField[name] = selName(u.X)
			}
			return true
		})
		b.WriteString("(* cobra flag defaults of `pyscn analyze` (cmd/pyscn/analyze.go: CreateCobraCommand) *)\n")
		for _, fl := range []struct{ name, kind, coq string }{
			{"min-complexity", "IntVar", "Z"}, {"min-cbo", "IntVar", "Z"}, {"clone-threshold", "Float64Var", "Q"}} {
			e, ok := flagDefault[fl.name]
			if !ok || flagKind[fl.name] != fl.kind {
				fail("gen_config: analyze flag --%s (%s) not found", fl.name, fl.kind)
				continue
			}
			s, ok := r.num(cmd, e, fl.coq, 0)
			if !ok {
				fail("gen_config: default of analyze flag --%s is not a constant", fl.name)
				continue
			}
			fmt.Fprintf(&b, "Definition analyze_flag_default_%s : %s := %s.\n", flagName(fl.name), fl.coq, s)
		}
		if e, ok := flagDefault["min-severity"]; ok && flagKind["min-severity"] == "StringVar" {
			if s, ok := r.str(cmd, e, 0); ok {
				if lvl, ok := sevOfString[s]; ok {
					fmt.Fprintf(&b, "Definition analyze_flag_default_min_severity_level : Z := (%d)%%Z.  (* %q *)\n", lvl, s)
				} else {
					fail("gen_config: default %q of --min-severity is not a severity", s)
				}
			} else {
				fail("gen_config: default of --min-severity is not a string constant")
			}
		} else {
			fail("gen_config: analyze flag --min-severity (StringVar) not found")
		}

		// ---- analyze: createUseCaseConfig passes the flag fields through ---------------------------
		cu := findFunc(cmd, "analyze.go", "AnalyzeCommand", "createUseCaseConfig")
		if cu == nil {
			fail("gen_config: createUseCaseConfig not found")
			return
		}
		b.WriteString("\n(* createUseCaseConfig: the use-case config takes the flag variables as they are *)\n")
		ucf := compositeFields(cu, "app.AnalyzeUseCaseConfig")
		for _, pr := range []struct{ field, flag string }{{"MinComplexity", "min-complexity"}, {"CloneSimilarity", "clone-threshold"}, {"MinCBO", "min-cbo"}} {
			through := ucf != nil && ucf[pr.field] != nil && selName(ucf[pr.field]) == flagField[pr.flag] && flagField[pr.flag] != ""
			if !through {
				fail("gen_config: AnalyzeUseCaseConfig.%s is not the variable of --%s", pr.field, pr.flag)
			}
			fmt.Fprintf(&b, "Definition analyze_cfg_%s_is_flag : bool := %v.\n", pr.field, through)
		}
		// the severity switch: case "critical"/"warning"/"info" -> same-named severity; default -> ?
		{
			okSwitch := false
			var fallback int64
			identity := true
			ast.Inspect(cu, func(nd ast.Node) bool {
				sw, ok := nd.(*ast.SwitchStmt)
				if !ok || selName(sw.Tag) != flagField["min-severity"] {
					return true
				}
				okSwitch = true
				for _, st := range sw.Body.List {
					cc := st.(*ast.CaseClause)
					if len(cc.Body) != 1 {
						identity = false
						continue
					}
					as, ok := cc.Body[0].(*ast.AssignStmt)
					if !ok || len(as.Rhs) != 1 || selName(as.Lhs[0]) != "config.MinSeverity" {
						identity = false
						continue
					}
					lvl := sevLevelOfExpr(cmd, as.Rhs[0], "createUseCaseConfig severity")
					if cc.List == nil {
						fallback = lvl
						continue
					}
					for _, ce := range cc.List {
						if s, ok := r.str(cmd, ce, 0); !ok || sevOfString[s] != lvl {
							identity = false
						}
					}
				}
				return false
			})
			if !okSwitch || !identity {
				fail("gen_config: severity switch of createUseCaseConfig is not the identity on critical/warning/info")
			}
			fmt.Fprintf(&b, "Definition analyze_severity_switch_identity : bool := %v.\nDefinition analyze_severity_fallback_level : Z := (%d)%%Z.\n", okSwitch && identity, fallback)
		}

		// ---- analyze: explicit-flag wrappers (Flags().Changed) -------------------------------------
		bi := findFunc(cmd, "analyze.go", "AnalyzeCommand", "buildIndividualUseCases")
		if bi == nil {
			fail("gen_config: buildIndividualUseCases not found")
			return
		}
		b.WriteString("\n(* buildIndividualUseCases: `if flagGiven(\"<flag>\") { loader = service.WithExplicit...(loader) }` (cobra Flags().Changed) *)\n")
		usesChanged := false
		ast.Inspect(bi, func(nd ast.Node) bool {
			if ce, ok := nd.(*ast.CallExpr); ok {
				if se, ok := ce.Fun.(*ast.SelectorExpr); ok && se.Sel.Name == "Changed" && len(ce.Args) == 1 && selName(ce.Args[0]) == "name" {
					usesChanged = true
				}
			}
			return true
		})
		explicit := map[string]string{}
		ast.Inspect(bi, func(nd ast.Node) bool {
			is, ok := nd.(*ast.IfStmt)
			if !ok {
				return true
			}
			ce, ok := is.Cond.(*ast.CallExpr)
			if !ok || selName(ce.Fun) != "flagGiven" || len(ce.Args) != 1 {
				return true
			}
			name, ok := r.str(cmd, ce.Args[0], 0)
			if !ok {
				return true
			}
			ast.Inspect(is.Body, func(n2 ast.Node) bool {
				if c2, ok := n2.(*ast.CallExpr); ok && strings.HasPrefix(selName(c2.Fun), "service.WithExplicit") {
					explicit[name] = strings.TrimPrefix(selName(c2.Fun), "service.")
				}
				return true
			})
			return true
		})
		for _, pr := range []struct{ flag, wrapper string }{{"min-complexity", "WithExplicitMinComplexity"}, {"min-severity", "WithExplicitMinSeverity"},
			{"clone-threshold", "WithExplicitSimilarityThreshold"}, {"min-cbo", "WithExplicitMinCBO"}} {
			on := usesChanged && explicit[pr.flag] == pr.wrapper
			fmt.Fprintf(&b, "Definition analyze_explicit_%s : bool := %v.\n", flagName(pr.flag), on)
		}

		// ---- analyze: hard-wired request values ----------------------------------------------------
		ct := findFunc(appp, "analyze_usecase.go", "AnalyzeUseCase", "createAnalysisTasks")
		if ct == nil {
			fail("gen_config: createAnalysisTasks not found")
			return
		}
		b.WriteString("\n(* createAnalysisTasks: request values (a field that is config.<X> comes from the flag variable) *)\n")
		reqField := func(typ, field string) ast.Expr {
			m := compositeFields(ct, typ)
			if m == nil || m[field] == nil {
				fail("gen_config: %s.%s not found in createAnalysisTasks", typ, field)
				return nil
			}
			return m[field]
		}
		for _, pr := range []struct{ typ, field, cfgField string }{
			{"domain.ComplexityRequest", "MinComplexity", "config.MinComplexity"},
			{"domain.DeadCodeRequest", "MinSeverity", "config.MinSeverity"},
			{"domain.CloneRequest", "SimilarityThreshold", "config.CloneSimilarity"},
			{"domain.CBORequest", "MinCBO", "config.MinCBO"}} {
			e := reqField(pr.typ, pr.field)
			through := e != nil && selName(e) == pr.cfgField
			if !through {
				fail("gen_config: %s.%s is no longer %s", pr.typ, pr.field, pr.cfgField)
			}
			fmt.Fprintf(&b, "Definition analyze_req_%s_is_flag : bool := %v.\n", pr.field, through)
		}
		for _, pr := range []struct{ typ, field, name string }{
			{"domain.ComplexityRequest", "LowThreshold", "cx_LowThreshold"}, {"domain.ComplexityRequest", "MediumThreshold", "cx_MediumThreshold"},
			{"domain.CBORequest", "LowThreshold", "cbo_LowThreshold"}, {"domain.CBORequest", "MediumThreshold", "cbo_MediumThreshold"},
			{"domain.LCOMRequest", "LowThreshold", "lcom_LowThreshold"}, {"domain.LCOMRequest", "MediumThreshold", "lcom_MediumThreshold"}} {
			e := reqField(pr.typ, pr.field)
			s, ok := r.num(appp, e, "Z", 0)
			if !ok {
				fail("gen_config: %s.%s in createAnalysisTasks is not a constant", pr.typ, pr.field)
				s = "0"
			}
			fmt.Fprintf(&b, "Definition analyze_req_%s : Z := %s.\n", pr.name, s)
		}
		// Execute resolves the config from paths[0]
		{
			ex := findFunc(appp, "analyze_usecase.go", "AnalyzeUseCase", "Execute")
			fromTarget := false
			if ex != nil {
				assigned := false
				ast.Inspect(ex, func(nd ast.Node) bool {
					if as, ok := nd.(*ast.AssignStmt); ok && len(as.Lhs) == 1 && selName(as.Lhs[0]) == "targetPath" && len(as.Rhs) == 1 {
						if ix, ok := as.Rhs[0].(*ast.IndexExpr); ok && selName(ix.X) == "paths" {
							if v, ok := intLit(ix.Index); ok && v == 0 {
								assigned = true
							}
						}
					}
					if ce, ok := nd.(*ast.CallExpr); ok {
						if se, ok := ce.Fun.(*ast.SelectorExpr); ok && se.Sel.Name == "ResolveConfigPath" && len(ce.Args) == 2 &&
							selName(ce.Args[0]) == "useCaseCfg.ConfigFile" && selName(ce.Args[1]) == "targetPath" {
							fromTarget = true
						}
					}
					return true
				})
				fromTarget = fromTarget && assigned
			}
			if !fromTarget {
				fail("gen_config: AnalyzeUseCase.Execute no longer calls ResolveConfigPath(useCaseCfg.ConfigFile, paths[0])")
			}
			fmt.Fprintf(&b, "Definition analyze_config_from_target : bool := %v.\n", fromTarget)
		}

		// ---- merge sentinels ---------------------------------------------------------------------------
		b.WriteString("\n(* service.ConfigurationLoaderImpl.MergeConfig: thresholds (MinComplexity / MaxComplexity sentinels are in Gen/CheckConst.v) *)\n")
		mc := findFunc(svc, "config_loader.go", "ConfigurationLoaderImpl", "MergeConfig")
		if mc == nil {
			fail("gen_config: ConfigurationLoaderImpl.MergeConfig not found")
			return
		}
		for _, k := range []string{"LowThreshold", "MediumThreshold"} {
			hits := cmpsOn(mc, "override."+k)
			var neq, gt string
			for _, h := range hits {
				if h.op == token.NEQ {
					if s, ok := r.num(svc, h.rhs, "Z", 0); ok {
						neq = s
					}
				}
				if h.op == token.GTR {
					if s, ok := r.num(svc, h.rhs, "Z", 0); ok {
						gt = s
					}
				}
			}
			if len(hits) != 2 || neq == "" || gt == "" {
				fail("gen_config: `override.%s != <const> && override.%s > <const>` not found in complexity MergeConfig", k, k)
				neq, gt = "0", "0"
			}
			fmt.Fprintf(&b, "Definition svc_cx_merge_%s_given (a : Z) : bool := negb (Z.eqb a %s) && Z.gtb a %s.\n", k, neq, gt)
		}
		b.WriteString("\n(* service.CBOConfigurationLoaderImpl.MergeConfig / LCOMConfigurationLoaderImpl.MergeConfig: request value counts as given when ... *)\n")
		for _, ld := range []struct{ file, recv, pfx string; keys []string }{
			{"cbo_config_loader.go", "CBOConfigurationLoaderImpl", "cbo", []string{"MinCBO", "LowThreshold", "MediumThreshold"}},
			{"lcom_config_loader.go", "LCOMConfigurationLoaderImpl", "lcom", []string{"LowThreshold", "MediumThreshold"}}} {
			fd := findFunc(svc, ld.file, ld.recv, "MergeConfig")
			if fd == nil {
				fail("gen_config: %s.MergeConfig not found", ld.recv)
				continue
			}
			for _, k := range ld.keys {
				hits := cmpsOn(fd, "override."+k)
				s := "false"
				if len(hits) == 1 {
					if rhs, ok := r.num(svc, hits[0].rhs, "Z", 0); ok {
						if c, ok := zCmp(hits[0].op, rhs); ok {
							s = c
						}
					}
				}
				if len(hits) == 2 {
					// `override.K > <const> && override.K != <const>`: the shape of the complexity loader above
					var neq, gt string
					for _, h := range hits {
						if rhs, ok := r.num(svc, h.rhs, "Z", 0); ok && h.op == token.NEQ {
							neq = rhs
						} else if ok && h.op == token.GTR {
							gt = rhs
						}
					}
					if neq != "" && gt != "" {
						s = fmt.Sprintf("negb (Z.eqb a %s) && Z.gtb a %s", neq, gt)
					}
				}
				if s == "false" {
					fail("gen_config: comparison(s) on override.%s not found in %s.MergeConfig", k, ld.recv)
				}
				fmt.Fprintf(&b, "Definition svc_%s_merge_%s_given (a : Z) : bool := %s.\n", ld.pfx, k, s)
			}
		}
		b.WriteString("\n(* app.CloneUseCase.mergeConfiguration: the request threshold wins when it differs from DefaultCloneRequest()'s *)\n")
		{
			mcf := findFunc(appp, "clone_usecase.go", "CloneUseCase", "mergeConfiguration")
			dcr := findFunc(dom, "clone.go", "", "DefaultCloneRequest")
			s := ""
			if mcf != nil && dcr != nil {
				hits := cmpsOn(mcf, "requestReq.SimilarityThreshold")
				isDefault := false
				ast.Inspect(mcf, func(nd ast.Node) bool {
					if as, ok := nd.(*ast.AssignStmt); ok && len(as.Lhs) == 1 && selName(as.Lhs[0]) == "defaultReq" && len(as.Rhs) == 1 {
						if ce, ok := as.Rhs[0].(*ast.CallExpr); ok && selName(ce.Fun) == "domain.DefaultCloneRequest" {
							isDefault = true
						}
					}
					return true
				})
				if len(hits) == 1 && hits[0].op == token.NEQ && selName(hits[0].rhs) == "defaultReq.SimilarityThreshold" && isDefault {
					if m := compositeFields(dcr, "CloneRequest"); m != nil {
						s, _ = r.num(dom, m["SimilarityThreshold"], "Q", 0)
					}
				}
			}
			if s == "" {
				fail("gen_config: `requestReq.SimilarityThreshold != defaultReq.SimilarityThreshold` (defaultReq := domain.DefaultCloneRequest()) not found")
				s = "(0#1)%Q"
			}
			fmt.Fprintf(&b, "Definition app_clone_merge_SimilarityThreshold_given (a : Q) : bool := negb (Qeq_bool a %s).\n", s)
		}

		// ---- the file side: key-present tests ------------------------------------------------------
		b.WriteString("\n(* internal/config merge*Section: how a key of the TOML file counts as present *)\n")
		sections := []struct {
			fn, param, field, name, kind string
		}{
			{"mergeComplexitySection", "complexity", "MinComplexity", "complexity_min_complexity", "ptr"},
			{"mergeComplexitySection", "complexity", "MaxComplexity", "complexity_max_complexity", "ptr"},
			{"mergeComplexitySection", "complexity", "LowThreshold", "complexity_low_threshold", "ptr"},
			{"mergeComplexitySection", "complexity", "MediumThreshold", "complexity_medium_threshold", "ptr"},
			{"mergeOutputSection", "output", "MinComplexity", "output_min_complexity", "ptr"},
			{"mergeCboSection", "cbo", "MinCbo", "cbo_min_cbo", "ptr"},
			{"mergeCboSection", "cbo", "LowThreshold", "cbo_low_threshold", "ptr"},
			{"mergeCboSection", "cbo", "MediumThreshold", "cbo_medium_threshold", "ptr"},
			{"mergeLcomSection", "lcom", "LowThreshold", "lcom_low_threshold", "ptr"},
			{"mergeLcomSection", "lcom", "MediumThreshold", "lcom_medium_threshold", "ptr"},
			{"mergeDeadCodeSection", "deadCode", "MinSeverity", "dead_code_min_severity", "str"},
			{"mergeClonesSection", "clones", "SimilarityThreshold", "clones_similarity_threshold", "Q"},
		}
		for _, sc := range sections {
			fd := findFunc(cfg, "pyproject_loader.go", "", sc.fn)
			if fd == nil {
				fail("gen_config: %s not found", sc.fn)
				continue
			}
			hits := cmpsOn(fd, sc.param+"."+sc.field)
			switch sc.kind {
			case "ptr":
				ok := len(hits) == 1 && hits[0].op == token.NEQ && isNil(hits[0].rhs)
				if !ok {
					fail("gen_config: `%s.%s != nil` not found in %s", sc.param, sc.field, sc.fn)
				}
				fmt.Fprintf(&b, "Definition cfg_key_%s_is_pointer : bool := %v.\n", sc.name, ok)
			case "str":
				ok := false
				if len(hits) == 1 && hits[0].op == token.NEQ {
					if s, isStr := r.str(cfg, hits[0].rhs, 0); isStr && s == "" {
						ok = true
					}
				}
				if !ok {
					fail("gen_config: `%s.%s != \"\"` not found in %s", sc.param, sc.field, sc.fn)
				}
				fmt.Fprintf(&b, "Definition cfg_key_%s_nonempty_test : bool := %v.\n", sc.name, ok)
			case "Q":
				s := "false"
				if len(hits) == 1 {
					if rhs, ok := r.num(cfg, hits[0].rhs, "Q", 0); ok {
						if c, ok := qCmp(hits[0].op, rhs); ok {
							s = c
						}
					}
				}
				if s == "false" {
					fail("gen_config: single comparison on %s.%s not found in %s", sc.param, sc.field, sc.fn)
				}
				fmt.Fprintf(&b, "Definition cfg_key_%s_given (a : Q) : bool := %s.\n", sc.name, s)
			}
		}
		// both loaders use the shared section merges
		{
			shared := true
			for _, pr := range []struct{ file, recv, fn string }{{"toml_loader.go", "TomlConfigLoader", "mergePyscnTomlConfigs"}, {"pyproject_loader.go", "", "loadPyprojectConfigData"}} {
				fd := findFunc(cfg, pr.file, pr.recv, pr.fn)
				if fd == nil {
					shared = false
					continue
				}
				calls := map[string]bool{}
				ast.Inspect(fd, func(nd ast.Node) bool {
					if ce, ok := nd.(*ast.CallExpr); ok {
						calls[selName(ce.Fun)] = true
					}
					return true
				})
				for _, need := range []string{"mergeComplexitySection", "mergeDeadCodeSection", "mergeOutputSection", "mergeCboSection", "mergeLcomSection", "mergeClonesSection"} {
					if !calls[need] {
						shared = false
					}
				}
			}
			if !shared {
				fail("gen_config: .pyscn.toml and pyproject.toml loaders no longer share the section merges")
			}
			fmt.Fprintf(&b, "Definition cfg_loaders_share_section_merges : bool := %v.\n", shared)
		}

		// ---- the file side: defaults (DefaultPyscnConfig) and the conversion to requests -----------
		b.WriteString("\n(* internal/config.DefaultPyscnConfig *)\n")
		dp := findFunc(cfg, "pyscn_config.go", "", "DefaultPyscnConfig")
		if dp == nil {
			fail("gen_config: DefaultPyscnConfig not found")
			return
		}
		dpf := compositeFields(dp, "PyscnConfig")
		for _, k := range []string{"ComplexityLowThreshold", "ComplexityMediumThreshold", "ComplexityMaxComplexity", "ComplexityMinComplexity",
			"OutputMinComplexity", "CboLowThreshold", "CboMediumThreshold", "CboMinCbo", "LcomLowThreshold", "LcomMediumThreshold"} {
			s, ok := "", false
			if dpf != nil {
				s, ok = r.num(cfg, dpf[k], "Z", 0)
			}
			if !ok {
				fail("gen_config: DefaultPyscnConfig.%s is not a constant", k)
				s = "0"
			}
			fmt.Fprintf(&b, "Definition cfg_default_%s : Z := %s.\n", k, s)
		}
		if dpf != nil {
			if s, ok := r.str(cfg, dpf["DeadCodeMinSeverity"], 0); ok {
				fmt.Fprintf(&b, "Definition cfg_default_DeadCodeMinSeverity_level : Z := (%d)%%Z.  (* %q *)\n", sevOfString[s], s)
			} else {
				fail("gen_config: DefaultPyscnConfig.DeadCodeMinSeverity is not a string constant")
			}
		}
		{
			s := ""
			for _, m := range compositeAll(dp, "ThresholdConfig") {
				if e, ok := m["SimilarityThreshold"]; ok {
					s, _ = r.num(cfg, e, "Q", 0)
				}
			}
			if s == "" {
				fail("gen_config: DefaultPyscnConfig Thresholds.SimilarityThreshold not found")
				s = "(0#1)%Q"
			}
			fmt.Fprintf(&b, "Definition cfg_default_SimilarityThreshold : Q := %s.\n", s)
		}
		b.WriteString("\n(* service: conversion of the loaded file to a request *)\n")
		{
			pu := findFunc(svc, "config_loader.go", "ConfigurationLoaderImpl", "pyscnConfigToUnifiedConfig")
			s := "false"
			base := false
			if pu != nil {
				hits := cmpsOn(pu, "pyscnCfg.OutputMinComplexity")
				if len(hits) == 1 {
					if rhs, ok := r.num(svc, hits[0].rhs, "Z", 0); ok {
						if c, ok := zCmp(hits[0].op, rhs); ok {
							s = c
						}
					}
				}
				ast.Inspect(pu, func(nd ast.Node) bool {
					if as, ok := nd.(*ast.AssignStmt); ok && len(as.Lhs) == 1 && len(as.Rhs) == 1 &&
						selName(as.Lhs[0]) == "cfg.Output.MinComplexity" && selName(as.Rhs[0]) == "pyscnCfg.ComplexityMinComplexity" {
						base = true
					}
					return true
				})
			}
			if s == "false" || !base {
				fail("gen_config: pyscnConfigToUnifiedConfig: Output.MinComplexity := ComplexityMinComplexity; if OutputMinComplexity > 0 ... not found")
			}
			fmt.Fprintf(&b, "Definition svc_output_min_complexity_overrides (a : Z) : bool := %s.  (* pyscnCfg.OutputMinComplexity OP const *)\n", s)
		}
		{
			cr := findFunc(svc, "dead_code_config_loader.go", "DeadCodeConfigurationLoaderImpl", "configToRequest")
			okSw := false
			identity := true
			var fallback int64
			if cr != nil {
				ast.Inspect(cr, func(nd ast.Node) bool {
					sw, ok := nd.(*ast.SwitchStmt)
					if !ok || selName(sw.Tag) != "cfg.DeadCode.MinSeverity" {
						return true
					}
					okSw = true
					for _, st := range sw.Body.List {
						cc := st.(*ast.CaseClause)
						if len(cc.Body) != 1 {
							identity = false
							continue
						}
						as, ok := cc.Body[0].(*ast.AssignStmt)
						if !ok || len(as.Rhs) != 1 {
							identity = false
							continue
						}
						lvl := sevLevelOfExpr(svc, as.Rhs[0], "configToRequest severity")
						if cc.List == nil {
							fallback = lvl
							continue
						}
						for _, ce := range cc.List {
							if s, ok := r.str(svc, ce, 0); !ok || sevOfString[s] != lvl {
								identity = false
							}
						}
					}
					return false
				})
			}
			if !okSw || !identity {
				fail("gen_config: severity switch of dead-code configToRequest is not the identity on critical/info")
			}
			fmt.Fprintf(&b, "Definition svc_dead_severity_switch_identity : bool := %v.\nDefinition svc_dead_severity_fallback_level : Z := (%d)%%Z.\n", okSw && identity, fallback)
		}

		// ---- discovery -----------------------------------------------------------------------------
		b.WriteString("\n(* internal/config/toml_loader.go: FindConfigFileFromPath / ResolveConfigPath *)\n")
		{
			ff := findFunc(cfg, "toml_loader.go", "TomlConfigLoader", "FindConfigFileFromPath")
			var names []string
			var needsSection []bool
			restarts := 0
			if ff != nil {
				for _, st := range ff.Body.List {
					switch x := st.(type) {
					case *ast.ForStmt:
						nm := ""
						sect := false
						ast.Inspect(x, func(nd ast.Node) bool {
							if ce, ok := nd.(*ast.CallExpr); ok {
								if selName(ce.Fun) == "filepath.Join" && len(ce.Args) == 2 && selName(ce.Args[0]) == "current" {
									nm, _ = r.str(cfg, ce.Args[1], 0)
								}
								if selName(ce.Fun) == "hasPyscnSection" {
									sect = true
								}
							}
							return true
						})
						names = append(names, nm)
						needsSection = append(needsSection, sect)
					case *ast.AssignStmt:
						if len(x.Lhs) == 1 && selName(x.Lhs[0]) == "current" && len(x.Rhs) == 1 && selName(x.Rhs[0]) == "dir" {
							restarts++
						}
					}
				}
			}
			shape := len(names) == 2 && restarts == 2
			pyscnFirst := shape && names[0] == ".pyscn.toml" && names[1] == "pyproject.toml"
			if !shape {
				fail("gen_config: FindConfigFileFromPath no longer has two upward passes starting at the search directory")
			}
			fmt.Fprintf(&b, "Definition cfg_discovery_two_passes : bool := %v.\n", shape)
			fmt.Fprintf(&b, "Definition cfg_discovery_pyscn_toml_first : bool := %v.\n", pyscnFirst)
			fmt.Fprintf(&b, "Definition cfg_discovery_pyproject_needs_section : bool := %v.\n", shape && !needsSection[0] && needsSection[1])
		}
		{
			rc := findFunc(cfg, "toml_loader.go", "TomlConfigLoader", "ResolveConfigPath")
			explicitFirst := false
			if rc != nil && len(rc.Body.List) > 0 {
				if is, ok := rc.Body.List[0].(*ast.IfStmt); ok {
					if be, ok := is.Cond.(*ast.BinaryExpr); ok && be.Op == token.NEQ && selName(be.X) == "configPath" {
						if s, ok := r.str(cfg, be.Y, 0); ok && s == "" {
							// every path through the body returns
							if _, ok := is.Body.List[len(is.Body.List)-1].(*ast.ReturnStmt); ok {
								explicitFirst = true
							}
						}
					}
				}
			}
			if !explicitFirst {
				fail("gen_config: ResolveConfigPath no longer starts with `if configPath != \"\" { ... return }`")
			}
			fmt.Fprintf(&b, "Definition cfg_resolve_explicit_first : bool := %v.\n", explicitFirst)
		}

		// ---- keys without a flag: does the value of the file reach the analysis? ----------------------
		// (facts, not requirements: a missing piece is emitted as `false`, the model then describes the code without it)
		b.WriteString("\n(* keys of the file that have no flag of analyze: the wiring between the loaded file and the analysis *)\n")
		mentions := func(e ast.Expr, sel string) bool {
			hit := false
			if e != nil {
				ast.Inspect(e, func(nd ast.Node) bool {
					if ex, ok := nd.(ast.Expr); ok && selName(ex) == sel {
						hit = true
					}
					return !hit
				})
			}
			return hit
		}
		assignsTo := func(fd *ast.FuncDecl, lhs string) bool {
			hit := false
			if fd != nil {
				ast.Inspect(fd, func(nd ast.Node) bool {
					if as, ok := nd.(*ast.AssignStmt); ok {
						for _, l := range as.Lhs {
							if selName(l) == lhs {
								hit = true
							}
						}
					}
					return true
				})
			}
			return hit
		}
		{
			cc := findFunc(svc, "clone_config_loader.go", "CloneConfigurationLoader", "cloneConfigToCloneRequest")
			mcf := findFunc(appp, "clone_usecase.go", "CloneUseCase", "mergeConfiguration")
			var ccf, areq map[string]ast.Expr
			if cc != nil {
				ccf = compositeFields(cc, "domain.CloneRequest")
			}
			areq = compositeFields(ct, "domain.CloneRequest")
			startsFromConfig := false
			if mcf != nil {
				ast.Inspect(mcf, func(nd ast.Node) bool {
					if as, ok := nd.(*ast.AssignStmt); ok && as.Tok == token.DEFINE && len(as.Lhs) == 1 && len(as.Rhs) == 1 &&
						selName(as.Lhs[0]) == "merged" && selName(as.Rhs[0]) == "configReq" {
						startsFromConfig = true
					}
					return true
				})
			}
			// [clones] skip_docstrings: copied from the loaded file, the merge starts from the file's request and never replaces it
			skip := ccf != nil && mentions(ccf["SkipDocstrings"], "cloneCfg.Analysis.SkipDocstrings") && startsFromConfig &&
				!assignsTo(mcf, "merged.SkipDocstrings")
			fmt.Fprintf(&b, "Definition clones_skip_docstrings_uses_file : bool := %v.\n", skip)
			// [clones] max_edit_distance: copied from the loaded file; analyze's request carries DefaultCloneRequest()'s value, which
			// the merge (`requestReq.MaxEditDistance != defaultReq.MaxEditDistance`) does not count as given
			defaultReqIsDefault := false
			ast.Inspect(ct, func(nd ast.Node) bool {
				if as, ok := nd.(*ast.AssignStmt); ok && len(as.Lhs) == 1 && selName(as.Lhs[0]) == "defaultReq" && len(as.Rhs) == 1 {
					if ce, ok := as.Rhs[0].(*ast.CallExpr); ok && selName(ce.Fun) == "domain.DefaultCloneRequest" {
						defaultReqIsDefault = true
					}
				}
				return true
			})
			mergeTest := false
			if mcf != nil {
				hits := cmpsOn(mcf, "requestReq.MaxEditDistance")
				mergeTest = len(hits) == 1 && hits[0].op == token.NEQ && selName(hits[0].rhs) == "defaultReq.MaxEditDistance"
			}
			maxd := ccf != nil && selName(ccf["MaxEditDistance"]) == "cloneCfg.Analysis.MaxEditDistance" && startsFromConfig && mergeTest &&
				areq != nil && areq["MaxEditDistance"] != nil && selName(areq["MaxEditDistance"]) == "defaultReq.MaxEditDistance" && defaultReqIsDefault
			fmt.Fprintf(&b, "Definition clones_max_edit_distance_uses_file : bool := %v.\n", maxd)
		}
		{
			// [output] format: generateOutput, without a format flag, takes the formats analyze can write from cfg.Output.Format
			gout := findFunc(cmd, "analyze.go", "AnalyzeCommand", "generateOutput")
			var formats []string
			guarded := false
			if gout != nil {
				ast.Inspect(gout, func(nd ast.Node) bool {
					is, ok := nd.(*ast.IfStmt)
					if !ok {
						return true
					}
					cond := src(cmd, is.Cond)
					if !(strings.Contains(cond, "!c.html") && strings.Contains(cond, "!c.json") && strings.Contains(cond, "!c.csv") && strings.Contains(cond, "!c.yaml")) ||
						strings.Contains(cond, "||") {
						return true
					}
					ast.Inspect(is.Body, func(n2 ast.Node) bool {
						sw, ok := n2.(*ast.SwitchStmt)
						if !ok || selName(sw.Tag) != "cfg.Output.Format" {
							return true
						}
						for _, st := range sw.Body.List {
							cc := st.(*ast.CaseClause)
							sets := false
							for _, bs := range cc.Body {
								if as, ok := bs.(*ast.AssignStmt); ok && len(as.Lhs) == 2 && len(as.Rhs) == 2 && selName(as.Lhs[0]) == "format" &&
									selName(as.Lhs[1]) == "extension" && selName(as.Rhs[0]) == "cfg.Output.Format" && selName(as.Rhs[1]) == "cfg.Output.Format" {
									sets = true
								}
							}
							if sets {
								for _, ce := range cc.List {
									if v, ok := r.str(cmd, ce, 0); ok {
										formats = append(formats, v)
									}
								}
							}
						}
						guarded = true
						return false
					})
					return true
				})
			}
			has := func(f string) bool {
				for _, x := range formats {
					if x == f {
						return true
					}
				}
				return false
			}
			fmt.Fprintf(&b, "Definition analyze_output_format_uses_file : bool := %v.  (* formats taken from the file: %s *)\n",
				guarded && len(formats) == 4 && has("html") && has("json") && has("csv") && has("yaml"), strings.Join(formats, " "))
		}
		{
			// [dead_code] detect_*: convertToFunctionDeadCode drops the findings whose reason detectionEnabled switches off
			de := findFunc(svc, "dead_code_service.go", "", "detectionEnabled")
			cv := findFunc(svc, "dead_code_service.go", "DeadCodeServiceImpl", "convertToFunctionDeadCode")
			want := map[string]string{"ReasonUnreachableAfterReturn": "req.DetectAfterReturn", "ReasonUnreachableAfterBreak": "req.DetectAfterBreak",
				"ReasonUnreachableAfterContinue": "req.DetectAfterContinue", "ReasonUnreachableAfterRaise": "req.DetectAfterRaise",
				"ReasonUnreachableBranch": "req.DetectUnreachableBranches"}
			table := de != nil
			nCases := 0
			defaultKeeps := false
			if de != nil {
				ast.Inspect(de, func(nd ast.Node) bool {
					sw, ok := nd.(*ast.SwitchStmt)
					if !ok || selName(sw.Tag) != "reason" {
						return true
					}
					for _, st := range sw.Body.List {
						cc := st.(*ast.CaseClause)
						if len(cc.Body) != 1 {
							table = false
							continue
						}
						rs, ok := cc.Body[0].(*ast.ReturnStmt)
						if !ok || len(rs.Results) != 1 {
							table = false
							continue
						}
						if cc.List == nil {
							defaultKeeps = selName(rs.Results[0]) == "true"
							continue
						}
						for _, ce := range cc.List {
							field, known := want[strings.TrimPrefix(selName(ce), "analyzer.")]
							call, isCall := rs.Results[0].(*ast.CallExpr)
							if !known || !isCall || selName(call.Fun) != "domain.BoolValue" || len(call.Args) != 2 || selName(call.Args[0]) != field ||
								selName(call.Args[1]) != "true" {
								table = false
							}
							nCases++
						}
					}
					return false
				})
			}
			applied := false
			if cv != nil {
				ast.Inspect(cv, func(nd ast.Node) bool {
					is, ok := nd.(*ast.IfStmt)
					if !ok {
						return true
					}
					u, ok := is.Cond.(*ast.UnaryExpr)
					if !ok || u.Op != token.NOT {
						return true
					}
					ce, ok := u.X.(*ast.CallExpr)
					if !ok || selName(ce.Fun) != "detectionEnabled" || len(ce.Args) != 2 || selName(ce.Args[0]) != "analyzerFinding.Reason" || selName(ce.Args[1]) != "req" {
						return true
					}
					if len(is.Body.List) == 1 {
						if br, ok := is.Body.List[0].(*ast.BranchStmt); ok && br.Tok == token.CONTINUE {
							applied = true
						}
					}
					return true
				})
			}
			fmt.Fprintf(&b, "Definition svc_dead_detect_switches_applied : bool := %v.\n", table && nCases == len(want) && defaultKeeps && applied)
			if de != nil {
				recordDigest(svc, "dead_code_service.go", "", "detectionEnabled")
			}
		}
		{
			// [dead_code] enabled: Execute skips dead code detection when the file says enabled = false, unless the analyses were
			// named explicitly (--select sets ExplicitSelection in createUseCaseConfig)
			ex := findFunc(appp, "analyze_usecase.go", "AnalyzeUseCase", "Execute")
			dd := findFunc(appp, "analyze_usecase.go", "AnalyzeUseCase", "deadCodeDisabledInConfig")
			guarded := false
			if ex != nil {
				ast.Inspect(ex, func(nd ast.Node) bool {
					is, ok := nd.(*ast.IfStmt)
					if !ok {
						return true
					}
					be, ok := is.Cond.(*ast.BinaryExpr)
					if !ok || be.Op != token.LAND {
						return true
					}
					u, ok1 := be.X.(*ast.UnaryExpr)
					ce, ok2 := be.Y.(*ast.CallExpr)
					if !ok1 || !ok2 || u.Op != token.NOT || selName(u.X) != "useCaseCfg.ExplicitSelection" || selName(ce.Fun) != "uc.deadCodeDisabledInConfig" ||
						len(ce.Args) != 1 || selName(ce.Args[0]) != "useCaseCfg.ConfigFile" {
						return true
					}
					if len(is.Body.List) == 1 && is.Else == nil {
						if as, ok := is.Body.List[0].(*ast.AssignStmt); ok && len(as.Lhs) == 1 && selName(as.Lhs[0]) == "useCaseCfg.SkipDeadCode" &&
							len(as.Rhs) == 1 && selName(as.Rhs[0]) == "true" {
							guarded = true
						}
					}
					return true
				})
			}
			readsKey := false
			if dd != nil {
				ast.Inspect(dd, func(nd ast.Node) bool {
					if u, ok := nd.(*ast.UnaryExpr); ok && u.Op == token.NOT && selName(u.X) == "cfg.DeadCode.Enabled" {
						readsKey = true
					}
					return true
				})
			}
			// createUseCaseConfig: ExplicitSelection = true exactly in the --select branch
			selectSets := false
			ast.Inspect(cu, func(nd ast.Node) bool {
				is, ok := nd.(*ast.IfStmt)
				if !ok || !strings.Contains(src(cmd, is.Cond), "c.selectAnalyses") {
					return true
				}
				inThen, inElse := false, false
				find := func(n ast.Node, hit *bool) {
					if n == nil {
						return
					}
					ast.Inspect(n, func(n2 ast.Node) bool {
						if as, ok := n2.(*ast.AssignStmt); ok && len(as.Lhs) == 1 && selName(as.Lhs[0]) == "config.ExplicitSelection" {
							*hit = true
						}
						return true
					})
				}
				find(is.Body, &inThen)
				if is.Else != nil {
					find(is.Else, &inElse)
				}
				selectSets = inThen && !inElse
				return false
			})
			fmt.Fprintf(&b, "Definition analyze_dead_code_enabled_uses_file : bool := %v.\n", guarded && readsKey && selectSets)
			if dd != nil {
				recordDigest(appp, "analyze_usecase.go", "AnalyzeUseCase", "deadCodeDisabledInConfig")
			}
		}
		{
			// the include / exclude patterns analyze falls back to without a configuration file (getFilePatterns) and the ones
			// a configuration file that does not set them comes with (DefaultPyscnConfig)
			gf := findFunc(appp, "analyze_usecase.go", "AnalyzeUseCase", "getFilePatterns")
			strList := func(e ast.Expr) ([]string, bool) {
				cl, ok := e.(*ast.CompositeLit)
				if !ok {
					return nil, false
				}
				var res []string
				for _, el := range cl.Elts {
					v, ok := r.str(cfg, el, 0)
					if !ok {
						return nil, false
					}
					res = append(res, v)
				}
				return res, true
			}
			for _, pr := range []struct{ local, field, name string }{{"defaultInclude", "AnalysisIncludePatterns", "include"}, {"defaultExclude", "AnalysisExcludePatterns", "exclude"}} {
				var fallback, dflt []string
				ok1, ok2 := false, false
				if gf != nil {
					fallback, ok1 = stringSliceAssigned(gf, pr.local)
				}
				if dpf != nil && dpf[pr.field] != nil {
					dflt, ok2 = strList(dpf[pr.field])
				}
				if !ok1 || !ok2 {
					fail("gen_config: getFilePatterns %s / DefaultPyscnConfig.%s are not string lists", pr.local, pr.field)
				}
				fmt.Fprintf(&b, "Definition analyze_fallback_%s : list (list N) :=\n  %s.\n", pr.name, coqStrList(fallback))
				fmt.Fprintf(&b, "Definition cfg_default_Analysis_%s : list (list N) :=\n  %s.\n", pr.name, coqStrList(dflt))
			}
		}

		writeGen("ConfigConst.v", b.String())

		recordDigest(cmd, "analyze.go", "AnalyzeCommand", "CreateCobraCommand")
		recordDigest(cmd, "analyze.go", "AnalyzeCommand", "createUseCaseConfig")
		recordDigest(cmd, "analyze.go", "AnalyzeCommand", "buildIndividualUseCases")
		recordDigest(cmd, "init.go", "InitCommand", "runInit")
		recordDigest(appp, "analyze_usecase.go", "AnalyzeUseCase", "Execute")
		recordDigest(appp, "analyze_usecase.go", "AnalyzeUseCase", "createAnalysisTasks")
		recordDigest(appp, "clone_usecase.go", "CloneUseCase", "mergeConfiguration")
		recordDigest(appp, "complexity_usecase.go", "ComplexityUseCase", "loadAndMergeConfig")
		recordDigest(appp, "cbo_usecase.go", "CBOUseCase", "loadAndMergeConfig")
		recordDigest(appp, "dead_code_usecase.go", "DeadCodeUseCase", "loadAndMergeConfig")
		recordDigest(svc, "config_loader.go", "ConfigurationLoaderImpl", "pyscnConfigToUnifiedConfig")
		recordDigest(svc, "cbo_config_loader.go", "CBOConfigurationLoaderImpl", "MergeConfig")
		recordDigest(svc, "cbo_config_loader.go", "CBOConfigurationLoaderImpl", "configToRequest")
		recordDigest(svc, "lcom_config_loader.go", "LCOMConfigurationLoaderImpl", "MergeConfig")
		recordDigest(svc, "clone_config_loader.go", "CloneConfigurationLoader", "cloneConfigToCloneRequest")
		recordDigest(svc, "explicit_flag_loaders.go", "explicitMinComplexityLoader", "MergeConfig")
		recordDigest(svc, "explicit_flag_loaders.go", "explicitMinSeverityLoader", "MergeConfig")
		recordDigest(svc, "explicit_flag_loaders.go", "explicitMinCBOLoader", "MergeConfig")
		recordDigest(svc, "explicit_flag_loaders.go", "explicitSimilarityLoader", "LoadCloneConfig")
		recordDigest(svc, "explicit_flag_loaders.go", "explicitSimilarityLoader", "GetDefaultCloneConfig")
		recordDigest(cfg, "toml_loader.go", "TomlConfigLoader", "LoadConfig")
		recordDigest(cfg, "toml_loader.go", "TomlConfigLoader", "loadFromFile")
		recordDigest(cfg, "toml_loader.go", "", "normalizeSearchDir")
		recordDigest(cfg, "pyproject_loader.go", "", "hasPyscnSection")
		recordDigest(cfg, "pyproject_loader.go", "", "mergeComplexitySection")
		recordDigest(cfg, "pyproject_loader.go", "", "mergeOutputSection")
		recordDigest(cfg, "pyproject_loader.go", "", "mergeCboSection")
		recordDigest(cfg, "pyproject_loader.go", "", "mergeLcomSection")
		recordDigest(cfg, "pyproject_loader.go", "", "mergeDeadCodeSection")
		recordDigest(cfg, "pyproject_loader.go", "", "mergeClonesSection")
		recordDigest(cfg, "pyscn_config.go", "", "DefaultPyscnConfig")
	})
}
