package main

// goeval.go: a small interpreter for a pure subset of Go over go/ast + go/types.
//
// The generators use it to read *decision logic* semantically: instead of matching the shape of a function
// ("four comparisons in an if/else-if chain") they evaluate the function on a finite grid of inputs and emit the
// resulting decision table (and, where a proof consumes an operator or a threshold as text, derive that operator /
// threshold from the evaluation). A behaviour-preserving rewrite (if-chain -> switch, De Morgan, a named temporary,
// guard + continue, ...) then yields the same table, a behavioural change a different one.
//
// Values:   int64, float64, string, bool, nil, *Struct, *Slice, *Map, *Closure, *FuncRef, *ErrVal, *Ptr
// Pointers to structs are the struct object itself (no copy on &/*), struct *values* are copied on assignment when
// go/types says the static type is a struct. Anything outside the subset raises an evalError naming the construct;
// the generator turns that into fail(...).

import (
	"fmt"
	"go/ast"
	"go/constant"
	"go/token"
	"go/types"
	"math"
	"os"
	"path/filepath"
	"sort"
	"strconv"
	"strings"
)

type Value interface{}

type Struct struct {
	Type string
	F    map[string]Value
}

type Slice struct{ E []Value }

type Map struct{ M map[interface{}]Value }

type ErrVal struct{ Msg string }

// Ptr is a pointer to a local variable of basic type (&x); rarely needed.
type Ptr struct {
	env  *Env
	name string
}

type Closure struct {
	pkg *pkgInfo
	lit *ast.FuncLit
	env *Env
}

type FuncRef struct {
	pkg  *pkgInfo
	decl *ast.FuncDecl
	recv Value // bound receiver for method values
	has  bool
}

type Env struct {
	vars   map[string]Value
	parent *Env
}

func newEnv(parent *Env) *Env { return &Env{vars: map[string]Value{}, parent: parent} }

func (e *Env) lookup(n string) (*Env, bool) {
	for c := e; c != nil; c = c.parent {
		if _, ok := c.vars[n]; ok {
			return c, true
		}
	}
	return nil, false
}

type evalError struct{ msg string }

func (e *evalError) Error() string { return e.msg }

func evalFail(format string, a ...interface{}) {
	panic(&evalError{fmt.Sprintf(format, a...)})
}

// control flow signals
type ctl int

const (
	ctlNone ctl = iota
	ctlReturn
	ctlBreak
	ctlContinue
)

// CallCtx is handed to the Extern hook for every call expression before normal resolution.
type CallCtx struct {
	In   *Interp
	Pkg  *pkgInfo
	Env  *Env
	Call *ast.CallExpr
	Name string // printed callee: "sort.Slice", "c.checkComplexity", "fmt.Fprintf"
}

func (c *CallCtx) NArgs() int { return len(c.Call.Args) }

// Arg evaluates the i-th argument in the caller's environment.
func (c *CallCtx) Arg(i int) Value { return c.In.expr(c.Pkg, c.Env, c.Call.Args[i]) }

// SetArgVar assigns v to the variable / field the i-th argument expression denotes.
func (c *CallCtx) SetArgVar(i int, v Value) { c.In.assign(c.Pkg, c.Env, c.Call.Args[i], v) }

type Interp struct {
	pkgs    map[string]*pkgInfo
	decls   map[*pkgInfo]map[types.Object]*ast.FuncDecl
	pkgVars map[types.Object]Value
	module  string
	// Extern is consulted first for every call; it returns (results, true) to short-circuit.
	Extern func(c *CallCtx) ([]Value, bool)
	steps  int
	depth  int
	Trace  []string // filled by the "trace" helper of hooks (free for the generator to use)
}

const (
	evalMaxSteps = 2000000
	evalMaxDepth = 64
)

func newInterp(ps ...*pkgInfo) *Interp {
	in := &Interp{pkgs: map[string]*pkgInfo{}, decls: map[*pkgInfo]map[types.Object]*ast.FuncDecl{}, pkgVars: map[types.Object]Value{}}
	for _, p := range ps {
		if p != nil {
			in.pkgs[p.dir] = p
		}
	}
	in.module = "github.com/ludo-technologies/pyscn"
	if data, err := os.ReadFile(filepath.Join(repo, "go.mod")); err == nil {
		for _, l := range strings.Split(string(data), "\n") {
			if strings.HasPrefix(l, "module ") {
				in.module = strings.TrimSpace(strings.TrimPrefix(l, "module "))
				break
			}
		}
	}
	return in
}

func (in *Interp) load(rel string) *pkgInfo {
	if p, ok := in.pkgs[rel]; ok {
		return p
	}
	if st, err := os.Stat(filepath.Join(repo, rel)); err != nil || !st.IsDir() {
		in.pkgs[rel] = nil
		return nil
	}
	save := problems
	p := loadPkg(rel)
	problems = save // a load failure here is reported by the caller as an evaluation error
	in.pkgs[rel] = p
	return p
}

func (in *Interp) declOf(p *pkgInfo, obj types.Object) *ast.FuncDecl {
	m, ok := in.decls[p]
	if !ok {
		m = map[types.Object]*ast.FuncDecl{}
		for _, f := range p.files {
			for _, d := range f.Decls {
				if fd, ok := d.(*ast.FuncDecl); ok {
					if o := p.info.Defs[fd.Name]; o != nil {
						m[o] = fd
					}
				}
			}
		}
		in.decls[p] = m
	}
	return m[obj]
}

// ---------------------------------------------------------------------------------------------
// entry points
// ---------------------------------------------------------------------------------------------

// CallFunc interprets fd (a function or method of package p) on the given receiver and arguments.
func (in *Interp) CallFunc(p *pkgInfo, fd *ast.FuncDecl, recv Value, args ...Value) (res []Value, err error) {
	defer func() {
		if r := recover(); r != nil {
			if ee, ok := r.(*evalError); ok {
				err = ee
				return
			}
			err = fmt.Errorf("interpreter panic: %v", r)
		}
	}()
	in.steps, in.depth = 0, 0
	if fd == nil {
		return nil, &evalError{"function not found"}
	}
	return in.callDecl(p, fd, recv, args), nil
}

// CallValue calls a closure / function value.
func (in *Interp) CallValue(f Value, args ...Value) (res []Value, err error) {
	defer func() {
		if r := recover(); r != nil {
			if ee, ok := r.(*evalError); ok {
				err = ee
				return
			}
			err = fmt.Errorf("interpreter panic: %v", r)
		}
	}()
	in.steps, in.depth = 0, 0
	return in.callValue(f, args), nil
}

func (in *Interp) callValue(f Value, args []Value) []Value {
	switch fn := f.(type) {
	case *Closure:
		return in.callBody(fn.pkg, fn.lit.Type, nil, fn.lit.Body, newEnv(fn.env), nil, args, "func literal")
	case *FuncRef:
		return in.callDecl(fn.pkg, fn.decl, fn.recv, args)
	}
	evalFail("call of a non-function value %T", f)
	return nil
}

func (in *Interp) callDecl(p *pkgInfo, fd *ast.FuncDecl, recv Value, args []Value) []Value {
	if fd.Body == nil {
		evalFail("function %s has no body", fd.Name.Name)
	}
	return in.callBody(p, fd.Type, fd.Recv, fd.Body, newEnv(nil), recv, args, fd.Name.Name)
}

func (in *Interp) callBody(p *pkgInfo, ft *ast.FuncType, recvList *ast.FieldList, body *ast.BlockStmt, env *Env, recv Value, args []Value, name string) []Value {
	in.depth++
	if in.depth > evalMaxDepth {
		evalFail("call depth bound exceeded in %s", name)
	}
	defer func() { in.depth-- }()
	if recvList != nil && len(recvList.List) > 0 && len(recvList.List[0].Names) > 0 {
		env.vars[recvList.List[0].Names[0].Name] = recv
	}
	i := 0
	if ft.Params != nil {
		for fi, f := range ft.Params.List {
			_, variadic := f.Type.(*ast.Ellipsis)
			if len(f.Names) == 0 {
				i++
				continue
			}
			for _, n := range f.Names {
				if variadic && fi == len(ft.Params.List)-1 {
					rest := &Slice{}
					if i < len(args) {
						rest.E = append(rest.E, args[i:]...)
					}
					env.vars[n.Name] = rest
					i = len(args)
					continue
				}
				if i >= len(args) {
					evalFail("%s: too few arguments (%d)", name, len(args))
				}
				env.vars[n.Name] = args[i]
				i++
			}
		}
	}
	var named []string
	nres := 0
	if ft.Results != nil {
		for _, f := range ft.Results.List {
			if len(f.Names) == 0 {
				nres++
			}
			for _, n := range f.Names {
				nres++
				named = append(named, n.Name)
				env.vars[n.Name] = in.zeroOfExpr(p, f.Type)
			}
		}
	}
	c, vals := in.block(p, env, body.List)
	if c == ctlReturn {
		if vals == nil && len(named) > 0 {
			for _, n := range named {
				e, _ := env.lookup(n)
				vals = append(vals, e.vars[n])
			}
		}
		return vals
	}
	if nres > 0 {
		evalFail("%s: missing return", name)
	}
	return nil
}

// ---------------------------------------------------------------------------------------------
// zero values
// ---------------------------------------------------------------------------------------------

func (in *Interp) zeroOfExpr(p *pkgInfo, te ast.Expr) Value {
	if tv, ok := p.info.Types[te]; ok && tv.Type != nil {
		return in.zeroOf(tv.Type)
	}
	return nil
}

func (in *Interp) zeroOf(t types.Type) Value {
	if t == nil {
		return nil
	}
	switch u := t.Underlying().(type) {
	case *types.Basic:
		switch {
		case u.Info()&types.IsBoolean != 0:
			return false
		case u.Info()&types.IsInteger != 0:
			return int64(0)
		case u.Info()&types.IsFloat != 0:
			return float64(0)
		case u.Info()&types.IsString != 0:
			return ""
		}
		return nil
	case *types.Struct:
		s := &Struct{Type: typeName(t), F: map[string]Value{}}
		for i := 0; i < u.NumFields(); i++ {
			s.F[u.Field(i).Name()] = in.zeroOf(u.Field(i).Type())
		}
		return s
	case *types.Array:
		s := &Slice{}
		for i := int64(0); i < u.Len(); i++ {
			s.E = append(s.E, in.zeroOf(u.Elem()))
		}
		return s
	}
	return nil
}

func typeName(t types.Type) string {
	if n, ok := t.(*types.Named); ok {
		return n.Obj().Name()
	}
	return t.String()
}

func isStructType(t types.Type) bool {
	if t == nil {
		return false
	}
	_, ok := t.Underlying().(*types.Struct)
	return ok
}

func copyStruct(v Value) Value {
	s, ok := v.(*Struct)
	if !ok || s == nil {
		return v
	}
	c := &Struct{Type: s.Type, F: make(map[string]Value, len(s.F))}
	for k, x := range s.F {
		c.F[k] = x
	}
	return c
}

// ---------------------------------------------------------------------------------------------
// statements
// ---------------------------------------------------------------------------------------------

func (in *Interp) tick(n ast.Node) {
	in.steps++
	if in.steps > evalMaxSteps {
		evalFail("step bound exceeded")
	}
}

func (in *Interp) block(p *pkgInfo, env *Env, list []ast.Stmt) (ctl, []Value) {
	for _, s := range list {
		if c, v := in.stmt(p, env, s); c != ctlNone {
			return c, v
		}
	}
	return ctlNone, nil
}

func (in *Interp) stmt(p *pkgInfo, env *Env, s ast.Stmt) (ctl, []Value) {
	in.tick(s)
	switch st := s.(type) {
	case *ast.BlockStmt:
		return in.block(p, newEnv(env), st.List)
	case *ast.EmptyStmt:
		return ctlNone, nil
	case *ast.ExprStmt:
		if ce, ok := st.X.(*ast.CallExpr); ok {
			in.call(p, env, ce)
			return ctlNone, nil
		}
		in.expr(p, env, st.X)
		return ctlNone, nil
	case *ast.ReturnStmt:
		if len(st.Results) == 0 {
			return ctlReturn, nil
		}
		if len(st.Results) == 1 {
			if ce, ok := unparen(st.Results[0]).(*ast.CallExpr); ok {
				vs := in.call(p, env, ce)
				if vs == nil {
					vs = []Value{}
				}
				return ctlReturn, vs
			}
		}
		vals := make([]Value, 0, len(st.Results))
		for _, r := range st.Results {
			vals = append(vals, in.expr(p, env, r))
		}
		return ctlReturn, vals
	case *ast.IfStmt:
		scope := newEnv(env)
		if st.Init != nil {
			if c, v := in.stmt(p, scope, st.Init); c != ctlNone {
				return c, v
			}
		}
		if in.boolOf(in.expr(p, scope, st.Cond), "if condition") {
			return in.block(p, newEnv(scope), st.Body.List)
		}
		if st.Else != nil {
			return in.stmt(p, scope, st.Else)
		}
		return ctlNone, nil
	case *ast.SwitchStmt:
		return in.switchStmt(p, env, st)
	case *ast.AssignStmt:
		in.assignStmt(p, env, st)
		return ctlNone, nil
	case *ast.DeclStmt:
		gd, ok := st.Decl.(*ast.GenDecl)
		if !ok {
			evalFail("unsupported declaration statement")
		}
		switch gd.Tok {
		case token.VAR:
			for _, sp := range gd.Specs {
				vs := sp.(*ast.ValueSpec)
				if len(vs.Values) == 0 {
					for _, n := range vs.Names {
						env.vars[n.Name] = in.zeroOfExpr(p, vs.Type)
					}
					continue
				}
				if len(vs.Values) != len(vs.Names) {
					evalFail("unsupported var declaration with a tuple initialiser")
				}
				for i, n := range vs.Names {
					env.vars[n.Name] = in.copyIfStruct(p, vs.Values[i], in.expr(p, env, vs.Values[i]))
				}
			}
		case token.CONST, token.TYPE:
			// constants are resolved through go/types
		default:
			evalFail("unsupported declaration %s", gd.Tok)
		}
		return ctlNone, nil
	case *ast.IncDecStmt:
		v := in.expr(p, env, st.X)
		d := int64(1)
		if st.Tok == token.DEC {
			d = -1
		}
		switch x := v.(type) {
		case int64:
			in.assign(p, env, st.X, x+d)
		case float64:
			in.assign(p, env, st.X, x+float64(d))
		default:
			evalFail("++/-- on %T", v)
		}
		return ctlNone, nil
	case *ast.RangeStmt:
		return in.rangeStmt(p, env, st)
	case *ast.ForStmt:
		scope := newEnv(env)
		if st.Init != nil {
			in.stmt(p, scope, st.Init)
		}
		for {
			in.tick(st)
			if st.Cond != nil && !in.boolOf(in.expr(p, scope, st.Cond), "for condition") {
				break
			}
			c, v := in.block(p, newEnv(scope), st.Body.List)
			if c == ctlReturn {
				return c, v
			}
			if c == ctlBreak {
				break
			}
			if st.Post != nil {
				in.stmt(p, scope, st.Post)
			}
		}
		return ctlNone, nil
	case *ast.BranchStmt:
		if st.Label != nil {
			evalFail("labelled %s", st.Tok)
		}
		switch st.Tok {
		case token.BREAK:
			return ctlBreak, nil
		case token.CONTINUE:
			return ctlContinue, nil
		}
		evalFail("unsupported branch statement %s", st.Tok)
	}
	evalFail("unsupported statement %T", s)
	return ctlNone, nil
}

func (in *Interp) switchStmt(p *pkgInfo, env *Env, st *ast.SwitchStmt) (ctl, []Value) {
	scope := newEnv(env)
	if st.Init != nil {
		in.stmt(p, scope, st.Init)
	}
	var tag Value
	hasTag := st.Tag != nil
	if hasTag {
		tag = in.expr(p, scope, st.Tag)
	}
	var dflt *ast.CaseClause
	run := func(cc *ast.CaseClause) (ctl, []Value) {
		for _, b := range cc.Body {
			if br, ok := b.(*ast.BranchStmt); ok && br.Tok == token.FALLTHROUGH {
				evalFail("fallthrough")
			}
		}
		c, v := in.block(p, newEnv(scope), cc.Body)
		if c == ctlBreak {
			c = ctlNone
		}
		return c, v
	}
	for _, c := range st.Body.List {
		cc := c.(*ast.CaseClause)
		if cc.List == nil {
			dflt = cc
			continue
		}
		for _, e := range cc.List {
			v := in.expr(p, scope, e)
			hit := false
			if hasTag {
				hit = valuesEqual(tag, v)
			} else {
				hit = in.boolOf(v, "case condition")
			}
			if hit {
				return run(cc)
			}
		}
	}
	if dflt != nil {
		return run(dflt)
	}
	return ctlNone, nil
}

func (in *Interp) rangeStmt(p *pkgInfo, env *Env, st *ast.RangeStmt) (ctl, []Value) {
	x := in.expr(p, env, st.X)
	type kv struct{ k, v Value }
	var items []kv
	switch c := x.(type) {
	case nil:
	case *Slice:
		if c != nil {
			for i, e := range c.E {
				items = append(items, kv{int64(i), e})
			}
		}
	case *Map:
		if c != nil {
			for _, k := range sortedKeys(c) {
				items = append(items, kv{k, c.M[k]})
			}
		}
	case string:
		for i, r := range c {
			items = append(items, kv{int64(i), int64(r)})
		}
	case int64:
		for i := int64(0); i < c; i++ {
			items = append(items, kv{i, nil})
		}
	default:
		evalFail("range over %T", x)
	}
	for _, it := range items {
		in.tick(st)
		scope := newEnv(env)
		bind := func(e ast.Expr, v Value) {
			if e == nil {
				return
			}
			if id, ok := e.(*ast.Ident); ok {
				if id.Name == "_" {
					return
				}
				if st.Tok == token.DEFINE {
					scope.vars[id.Name] = v
					return
				}
			}
			in.assign(p, scope, e, v)
		}
		bind(st.Key, it.k)
		bind(st.Value, copyIfStructVal(it.v, st.Value, p))
		c, v := in.block(p, scope, st.Body.List)
		if c == ctlReturn {
			return c, v
		}
		if c == ctlBreak {
			break
		}
	}
	return ctlNone, nil
}

func copyIfStructVal(v Value, e ast.Expr, p *pkgInfo) Value {
	if e == nil {
		return v
	}
	if id, ok := e.(*ast.Ident); ok {
		if o := p.info.Defs[id]; o != nil && isStructType(o.Type()) {
			return copyStruct(v)
		}
	}
	return v
}

func sortedKeys(m *Map) []interface{} {
	ks := make([]interface{}, 0, len(m.M))
	for k := range m.M {
		ks = append(ks, k)
	}
	sort.Slice(ks, func(i, j int) bool {
		switch a := ks[i].(type) {
		case string:
			b, _ := ks[j].(string)
			return a < b
		case int64:
			b, _ := ks[j].(int64)
			return a < b
		}
		return fmt.Sprint(ks[i]) < fmt.Sprint(ks[j])
	})
	return ks
}

func (in *Interp) copyIfStruct(p *pkgInfo, e ast.Expr, v Value) Value {
	if tv, ok := p.info.Types[e]; ok && isStructType(tv.Type) {
		if _, isPtr := tv.Type.(*types.Pointer); !isPtr {
			return copyStruct(v)
		}
	}
	return v
}

func (in *Interp) assignStmt(p *pkgInfo, env *Env, st *ast.AssignStmt) {
	var vals []Value
	if len(st.Rhs) == 1 && len(st.Lhs) > 1 {
		switch r := unparen(st.Rhs[0]).(type) {
		case *ast.CallExpr:
			vals = in.call(p, env, r)
		case *ast.IndexExpr: // v, ok := m[k]
			m := in.expr(p, env, r.X)
			k := in.expr(p, env, r.Index)
			mm, _ := m.(*Map)
			var v Value
			ok := false
			if mm != nil {
				v, ok = mm.M[mapKey(k)]
			}
			if !ok {
				v = in.zeroOfTypeOf(p, r)
			}
			vals = []Value{v, ok}
		default:
			evalFail("unsupported tuple assignment from %T", r)
		}
		if len(vals) != len(st.Lhs) {
			evalFail("assignment count mismatch: %d = %d", len(st.Lhs), len(vals))
		}
	} else {
		if len(st.Lhs) != len(st.Rhs) {
			evalFail("assignment count mismatch")
		}
		for _, r := range st.Rhs {
			vals = append(vals, in.copyIfStruct(p, r, in.expr(p, env, r)))
		}
	}
	switch st.Tok {
	case token.DEFINE:
		for i, l := range st.Lhs {
			id, ok := l.(*ast.Ident)
			if !ok {
				evalFail("non-identifier on the left of :=")
			}
			if id.Name == "_" {
				continue
			}
			// := redeclares only identifiers new in this scope; go/types records new ones in Defs
			if p.info.Defs[id] != nil {
				env.vars[id.Name] = vals[i]
			} else {
				in.assign(p, env, l, vals[i])
			}
		}
	case token.ASSIGN:
		for i, l := range st.Lhs {
			in.assign(p, env, l, vals[i])
		}
	default:
		// op=
		if len(st.Lhs) != 1 {
			evalFail("unsupported compound assignment")
		}
		ops := map[token.Token]token.Token{token.ADD_ASSIGN: token.ADD, token.SUB_ASSIGN: token.SUB, token.MUL_ASSIGN: token.MUL,
			token.QUO_ASSIGN: token.QUO, token.REM_ASSIGN: token.REM}
		op, ok := ops[st.Tok]
		if !ok {
			evalFail("unsupported assignment operator %s", st.Tok)
		}
		cur := in.expr(p, env, st.Lhs[0])
		in.assign(p, env, st.Lhs[0], binaryOp(op, cur, vals[0]))
	}
}

func (in *Interp) zeroOfTypeOf(p *pkgInfo, e ast.Expr) Value {
	if tv, ok := p.info.Types[e]; ok && tv.Type != nil {
		if tup, ok := tv.Type.(*types.Tuple); ok && tup.Len() > 0 {
			return in.zeroOf(tup.At(0).Type())
		}
		return in.zeroOf(tv.Type)
	}
	return nil
}

func (in *Interp) assign(p *pkgInfo, env *Env, lhs ast.Expr, v Value) {
	switch l := unparen(lhs).(type) {
	case *ast.Ident:
		if l.Name == "_" {
			return
		}
		if e, ok := env.lookup(l.Name); ok {
			e.vars[l.Name] = v
			return
		}
		evalFail("assignment to unknown variable %s", l.Name)
	case *ast.SelectorExpr:
		x := in.expr(p, env, l.X)
		s, ok := x.(*Struct)
		if !ok || s == nil {
			evalFail("assignment to a field of %T", x)
		}
		s.F[l.Sel.Name] = v
	case *ast.IndexExpr:
		x := in.expr(p, env, l.X)
		k := in.expr(p, env, l.Index)
		switch c := x.(type) {
		case *Slice:
			i, ok := k.(int64)
			if !ok || c == nil || i < 0 || int(i) >= len(c.E) {
				evalFail("index out of range in assignment")
			}
			c.E[i] = v
		case *Map:
			if c == nil {
				evalFail("assignment to entry in nil map")
			}
			c.M[mapKey(k)] = v
		default:
			evalFail("indexed assignment into %T", x)
		}
	case *ast.StarExpr:
		x := in.expr(p, env, l.X)
		switch pt := x.(type) {
		case *Ptr:
			pt.env.vars[pt.name] = v
		case *Struct:
			if ns, ok := v.(*Struct); ok && pt != nil && ns != nil {
				pt.F = copyStruct(ns).(*Struct).F
				return
			}
			evalFail("unsupported store through a struct pointer")
		default:
			evalFail("store through %T", x)
		}
	default:
		evalFail("unsupported assignment target %T", lhs)
	}
}

// ---------------------------------------------------------------------------------------------
// expressions
// ---------------------------------------------------------------------------------------------

func unparen(e ast.Expr) ast.Expr {
	for {
		pe, ok := e.(*ast.ParenExpr)
		if !ok {
			return e
		}
		e = pe.X
	}
}

func (in *Interp) boolOf(v Value, what string) bool {
	b, ok := v.(bool)
	if !ok {
		evalFail("%s is not a bool (%T)", what, v)
	}
	return b
}

func constToValue(v constant.Value, t types.Type) (Value, bool) {
	if v == nil {
		return nil, false
	}
	var bt *types.Basic
	if t != nil {
		bt, _ = t.Underlying().(*types.Basic)
	}
	switch v.Kind() {
	case constant.Bool:
		return constant.BoolVal(v), true
	case constant.String:
		return constant.StringVal(v), true
	case constant.Int:
		if bt != nil && bt.Info()&types.IsFloat != 0 {
			f, _ := constant.Float64Val(v)
			return f, true
		}
		i, ok := constant.Int64Val(v)
		if !ok {
			f, _ := constant.Float64Val(v)
			return f, true
		}
		return i, true
	case constant.Float:
		if bt != nil && bt.Info()&types.IsInteger != 0 {
			if i, ok := constant.Int64Val(constant.ToInt(v)); ok {
				return i, true
			}
		}
		f, _ := constant.Float64Val(v)
		return f, true
	}
	return nil, false
}

func (in *Interp) relOfImport(path string) (string, bool) {
	if path == in.module {
		return ".", true
	}
	if strings.HasPrefix(path, in.module+"/") {
		return strings.TrimPrefix(path, in.module+"/"), true
	}
	return "", false
}

// pkgOfIdent: if id names an imported package of the repository, the loaded package.
func (in *Interp) importedPkg(p *pkgInfo, id *ast.Ident) (*pkgInfo, string, bool) {
	if p.info.Uses == nil {
		return nil, "", false
	}
	pn, ok := p.info.Uses[id].(*types.PkgName)
	if !ok {
		return nil, "", false
	}
	path := pn.Imported().Path()
	if rel, ok := in.relOfImport(path); ok {
		return in.load(rel), path, true
	}
	return nil, path, true
}

func (in *Interp) objValue(p *pkgInfo, obj types.Object, name string) Value {
	switch o := obj.(type) {
	case *types.Const:
		if v, ok := constToValue(o.Val(), o.Type()); ok {
			return v
		}
		evalFail("constant %s has an unsupported value", name)
	case *types.Func:
		if fd := in.declOf(p, o); fd != nil {
			return &FuncRef{pkg: p, decl: fd}
		}
		evalFail("function %s has no declaration in %s", name, p.dir)
	case *types.Var:
		if v, ok := in.pkgVars[o]; ok {
			return v
		}
		// package-level variable: evaluate its initialiser
		for _, f := range p.files {
			for _, d := range f.Decls {
				gd, ok := d.(*ast.GenDecl)
				if !ok || gd.Tok != token.VAR {
					continue
				}
				for _, sp := range gd.Specs {
					vs := sp.(*ast.ValueSpec)
					for i, n := range vs.Names {
						if p.info.Defs[n] == obj {
							var v Value
							if i < len(vs.Values) && len(vs.Values) == len(vs.Names) {
								v = in.expr(p, newEnv(nil), vs.Values[i])
							} else if len(vs.Values) == 0 {
								v = in.zeroOfExpr(p, vs.Type)
							} else {
								evalFail("package variable %s has a tuple initialiser", name)
							}
							in.pkgVars[o] = v
							return v
						}
					}
				}
			}
		}
		evalFail("unknown variable %s", name)
	case *types.Nil:
		return nil
	}
	evalFail("unsupported identifier %s", name)
	return nil
}

func (in *Interp) expr(p *pkgInfo, env *Env, e ast.Expr) Value {
	in.tick(e)
	// constants (literals, named constants, constant expressions) through go/types
	if tv, ok := p.info.Types[e]; ok && tv.Value != nil {
		if v, ok := constToValue(tv.Value, tv.Type); ok {
			return v
		}
	}
	switch x := e.(type) {
	case *ast.ParenExpr:
		return in.expr(p, env, x.X)
	case *ast.BasicLit:
		switch x.Kind {
		case token.INT, token.FLOAT, token.STRING, token.CHAR:
			v, _ := constToValue(constant.MakeFromLiteral(x.Value, x.Kind, 0), nil)
			return v
		}
		evalFail("unsupported literal %s", x.Value)
	case *ast.Ident:
		if sc, ok := env.lookup(x.Name); ok {
			return sc.vars[x.Name]
		}
		switch x.Name {
		case "true":
			return true
		case "false":
			return false
		case "nil":
			return nil
		}
		if p.info.Uses != nil {
			if obj := p.info.Uses[x]; obj != nil {
				return in.objValue(p, obj, x.Name)
			}
		}
		if obj := p.pkg.Scope().Lookup(x.Name); obj != nil {
			return in.objValue(p, obj, x.Name)
		}
		evalFail("unknown identifier %s", x.Name)
	case *ast.SelectorExpr:
		if id, ok := x.X.(*ast.Ident); ok {
			if _, local := env.lookup(id.Name); !local {
				if ip, path, isPkg := in.importedPkg(p, id); isPkg {
					if ip == nil || ip.pkg == nil {
						if path == "path/filepath" && x.Sel.Name == "Separator" {
							return int64(filepath.Separator)
						}
						// a value of a package outside the repository (io.Discard, os.Stderr): opaque
						return &Struct{Type: "extern:" + path + "." + x.Sel.Name, F: map[string]Value{}}
					}
					obj := ip.pkg.Scope().Lookup(x.Sel.Name)
					if obj == nil {
						evalFail("%s.%s not found", path, x.Sel.Name)
					}
					return in.objValue(ip, obj, id.Name+"."+x.Sel.Name)
				}
			}
		}
		recv := in.expr(p, env, x.X)
		if s, ok := recv.(*Struct); ok {
			if s == nil {
				evalFail("nil pointer dereference at .%s", x.Sel.Name)
			}
			if v, ok := s.F[x.Sel.Name]; ok {
				return v
			}
		}
		// method value
		if fr := in.methodOf(p, x, recv); fr != nil {
			return fr
		}
		if _, ok := recv.(*Struct); ok {
			if tv, ok := p.info.Types[e]; ok && tv.Type != nil && tv.Type != types.Typ[types.Invalid] {
				return in.zeroOf(tv.Type) // a field the generator's environment left at its zero value
			}
			evalFail("field %s not present in the environment (%s)", x.Sel.Name, src(p, x))
		}
		evalFail("selector .%s on %T", x.Sel.Name, recv)
	case *ast.IndexExpr:
		c := in.expr(p, env, x.X)
		k := in.expr(p, env, x.Index)
		switch cc := c.(type) {
		case *Slice:
			i, ok := k.(int64)
			if !ok || cc == nil || i < 0 || int(i) >= len(cc.E) {
				evalFail("index out of range: %s", src(p, x))
			}
			return cc.E[i]
		case *Map:
			if cc != nil {
				if v, ok := cc.M[mapKey(k)]; ok {
					return v
				}
			}
			return in.zeroOfTypeOf(p, x)
		case nil:
			if tv, ok := p.info.Types[x.X]; ok && tv.Type != nil {
				if _, isMap := tv.Type.Underlying().(*types.Map); isMap {
					return in.zeroOfTypeOf(p, x)
				}
			}
			evalFail("index of nil: %s", src(p, x))
		case string:
			i, ok := k.(int64)
			if !ok || i < 0 || int(i) >= len(cc) {
				evalFail("string index out of range")
			}
			return int64(cc[i])
		}
		evalFail("index into %T", c)
	case *ast.SliceExpr:
		c := in.expr(p, env, x.X)
		lo, hi := int64(0), int64(-1)
		if x.Low != nil {
			lo, _ = in.expr(p, env, x.Low).(int64)
		}
		if x.High != nil {
			hi, _ = in.expr(p, env, x.High).(int64)
		}
		switch cc := c.(type) {
		case string:
			if hi < 0 {
				hi = int64(len(cc))
			}
			if lo < 0 || hi > int64(len(cc)) || lo > hi {
				evalFail("slice bounds out of range")
			}
			return cc[lo:hi]
		case *Slice:
			n := int64(0)
			if cc != nil {
				n = int64(len(cc.E))
			}
			if hi < 0 {
				hi = n
			}
			if lo < 0 || hi > n || lo > hi {
				evalFail("slice bounds out of range")
			}
			return &Slice{E: append([]Value(nil), cc.E[lo:hi]...)}
		case nil:
			if lo == 0 && hi <= 0 {
				return nil
			}
		}
		evalFail("slice of %T", c)
	case *ast.StarExpr:
		v := in.expr(p, env, x.X)
		switch pt := v.(type) {
		case *Ptr:
			return pt.env.vars[pt.name]
		case *Struct:
			if pt == nil {
				evalFail("nil pointer dereference")
			}
			return pt
		case nil:
			evalFail("nil pointer dereference")
		}
		return v
	case *ast.UnaryExpr:
		if x.Op == token.AND {
			if id, ok := unparen(x.X).(*ast.Ident); ok {
				if sc, found := env.lookup(id.Name); found {
					switch sc.vars[id.Name].(type) {
					case *Struct, *Slice, *Map:
						return sc.vars[id.Name]
					}
					return &Ptr{env: sc, name: id.Name}
				}
			}
			v := in.expr(p, env, x.X)
			switch v.(type) {
			case *Struct, *Slice, *Map:
				return v
			}
			evalFail("address of a non-addressable value: %s", src(p, x))
		}
		v := in.expr(p, env, x.X)
		switch x.Op {
		case token.NOT:
			return !in.boolOf(v, "operand of !")
		case token.SUB:
			switch n := v.(type) {
			case int64:
				return -n
			case float64:
				return -n
			}
		case token.ADD:
			return v
		}
		evalFail("unsupported unary operator %s on %T", x.Op, v)
	case *ast.BinaryExpr:
		switch x.Op {
		case token.LAND:
			return in.boolOf(in.expr(p, env, x.X), "operand of &&") && in.boolOf(in.expr(p, env, x.Y), "operand of &&")
		case token.LOR:
			return in.boolOf(in.expr(p, env, x.X), "operand of ||") || in.boolOf(in.expr(p, env, x.Y), "operand of ||")
		}
		return binaryOp(x.Op, in.expr(p, env, x.X), in.expr(p, env, x.Y))
	case *ast.CallExpr:
		vs := in.call(p, env, x)
		if len(vs) != 1 {
			evalFail("call %s used as a value returns %d results", src(p, x.Fun), len(vs))
		}
		return vs[0]
	case *ast.CompositeLit:
		return in.composite(p, env, x, nil)
	case *ast.FuncLit:
		return &Closure{pkg: p, lit: x, env: env}
	case *ast.TypeAssertExpr:
		evalFail("type assertion")
	}
	evalFail("unsupported expression %T", e)
	return nil
}

func mapKey(k Value) interface{} {
	switch k.(type) {
	case string, int64, bool, float64:
		return k
	}
	evalFail("unsupported map key %T", k)
	return nil
}

func (in *Interp) composite(p *pkgInfo, env *Env, cl *ast.CompositeLit, elemType types.Type) Value {
	var t types.Type
	if tv, ok := p.info.Types[cl]; ok {
		t = tv.Type
	}
	if t == nil || t == types.Typ[types.Invalid] {
		t = elemType
	}
	var under types.Type
	if t != nil {
		under = t.Underlying()
		if pt, ok := under.(*types.Pointer); ok {
			under = pt.Elem().Underlying()
		}
	}
	sub := func(e ast.Expr, et types.Type) Value {
		if c, ok := e.(*ast.CompositeLit); ok {
			return in.composite(p, env, c, et)
		}
		return in.copyIfStruct(p, e, in.expr(p, env, e))
	}
	switch u := under.(type) {
	case *types.Struct:
		s := in.zeroOf(u).(*Struct)
		s.Type = typeName(t)
		for i, el := range cl.Elts {
			if kv, ok := el.(*ast.KeyValueExpr); ok {
				id, _ := kv.Key.(*ast.Ident)
				if id == nil {
					evalFail("struct literal with a non-identifier key")
				}
				s.F[id.Name] = sub(kv.Value, nil)
			} else {
				if i >= u.NumFields() {
					evalFail("too many positional fields in struct literal")
				}
				s.F[u.Field(i).Name()] = sub(el, u.Field(i).Type())
			}
		}
		return s
	case *types.Slice, *types.Array:
		var et types.Type
		n := int64(-1)
		if sl, ok := u.(*types.Slice); ok {
			et = sl.Elem()
		} else {
			et = u.(*types.Array).Elem()
			n = u.(*types.Array).Len()
		}
		s := &Slice{}
		for _, el := range cl.Elts {
			if _, ok := el.(*ast.KeyValueExpr); ok {
				evalFail("indexed slice literal")
			}
			s.E = append(s.E, sub(el, et))
		}
		for n >= 0 && int64(len(s.E)) < n {
			s.E = append(s.E, in.zeroOf(et))
		}
		return s
	case *types.Map:
		m := &Map{M: map[interface{}]Value{}}
		for _, el := range cl.Elts {
			kv, ok := el.(*ast.KeyValueExpr)
			if !ok {
				evalFail("map literal without keys")
			}
			m.M[mapKey(in.expr(p, env, kv.Key))] = sub(kv.Value, u.Elem())
		}
		return m
	}
	// type of another package (not type-checked): decide by the shape of the literal
	if len(cl.Elts) > 0 {
		if _, ok := cl.Elts[0].(*ast.KeyValueExpr); ok {
			allIdent := true
			for _, el := range cl.Elts {
				if kv, ok := el.(*ast.KeyValueExpr); !ok {
					allIdent = false
				} else if _, ok := kv.Key.(*ast.Ident); !ok {
					allIdent = false
				}
			}
			if allIdent {
				s := &Struct{Type: src(p, cl.Type), F: map[string]Value{}}
				for _, el := range cl.Elts {
					kv := el.(*ast.KeyValueExpr)
					s.F[kv.Key.(*ast.Ident).Name] = sub(kv.Value, nil)
				}
				return s
			}
		}
	} else if cl.Type != nil {
		switch cl.Type.(type) {
		case *ast.ArrayType:
			return &Slice{}
		case *ast.MapType:
			return &Map{M: map[interface{}]Value{}}
		}
		return &Struct{Type: src(p, cl.Type), F: map[string]Value{}}
	}
	if at, ok := cl.Type.(*ast.ArrayType); ok {
		_ = at
		s := &Slice{}
		for _, el := range cl.Elts {
			s.E = append(s.E, sub(el, nil))
		}
		return s
	}
	evalFail("unsupported composite literal %s", src(p, cl.Type))
	return nil
}

func valuesEqual(a, b Value) bool {
	switch x := a.(type) {
	case nil:
		return isNilVal(b)
	case int64:
		switch y := b.(type) {
		case int64:
			return x == y
		case float64:
			return float64(x) == y
		}
	case float64:
		switch y := b.(type) {
		case int64:
			return x == float64(y)
		case float64:
			return x == y
		}
	case string:
		y, ok := b.(string)
		return ok && x == y
	case bool:
		y, ok := b.(bool)
		return ok && x == y
	case *Struct:
		if isNilVal(b) {
			return x == nil
		}
		y, ok := b.(*Struct)
		return ok && x == y
	case *ErrVal:
		if isNilVal(b) {
			return x == nil
		}
		y, ok := b.(*ErrVal)
		return ok && x == y
	case *Slice:
		if isNilVal(b) {
			return x == nil
		}
	case *Map:
		if isNilVal(b) {
			return x == nil
		}
	case *Closure, *FuncRef:
		if isNilVal(b) {
			return false
		}
	}
	if isNilVal(a) && isNilVal(b) {
		return true
	}
	evalFail("unsupported comparison of %T and %T", a, b)
	return false
}

func isNilVal(v Value) bool {
	switch x := v.(type) {
	case nil:
		return true
	case *Struct:
		return x == nil
	case *Slice:
		return x == nil
	case *Map:
		return x == nil
	case *ErrVal:
		return x == nil
	}
	return false
}

func binaryOp(op token.Token, a, b Value) Value {
	switch op {
	case token.EQL:
		return valuesEqual(a, b)
	case token.NEQ:
		return !valuesEqual(a, b)
	}
	// numeric coercion of mixed int/float operands (an untyped constant next to a value of a type we could not check)
	if ai, ok := a.(int64); ok {
		if _, isF := b.(float64); isF {
			a = float64(ai)
		}
	}
	if bi, ok := b.(int64); ok {
		if _, isF := a.(float64); isF {
			b = float64(bi)
		}
	}
	switch x := a.(type) {
	case int64:
		y, ok := b.(int64)
		if !ok {
			break
		}
		switch op {
		case token.ADD:
			return x + y
		case token.SUB:
			return x - y
		case token.MUL:
			return x * y
		case token.QUO:
			if y == 0 {
				evalFail("integer division by zero")
			}
			return x / y
		case token.REM:
			if y == 0 {
				evalFail("integer division by zero")
			}
			return x % y
		case token.LSS:
			return x < y
		case token.LEQ:
			return x <= y
		case token.GTR:
			return x > y
		case token.GEQ:
			return x >= y
		case token.AND:
			return x & y
		case token.OR:
			return x | y
		case token.XOR:
			return x ^ y
		case token.SHL:
			return x << uint64(y)
		case token.SHR:
			return x >> uint64(y)
		}
	case float64:
		y, ok := b.(float64)
		if !ok {
			break
		}
		switch op {
		case token.ADD:
			return x + y
		case token.SUB:
			return x - y
		case token.MUL:
			return x * y
		case token.QUO:
			return x / y
		case token.LSS:
			return x < y
		case token.LEQ:
			return x <= y
		case token.GTR:
			return x > y
		case token.GEQ:
			return x >= y
		}
	case string:
		y, ok := b.(string)
		if !ok {
			break
		}
		switch op {
		case token.ADD:
			return x + y
		case token.LSS:
			return x < y
		case token.LEQ:
			return x <= y
		case token.GTR:
			return x > y
		case token.GEQ:
			return x >= y
		}
	}
	evalFail("unsupported binary operation %T %s %T", a, op, b)
	return nil
}

// ---------------------------------------------------------------------------------------------
// calls
// ---------------------------------------------------------------------------------------------

// methodOf resolves sel as a method of a type of p (go/types selection) bound to recv.
func (in *Interp) methodOf(p *pkgInfo, sel *ast.SelectorExpr, recv Value) *FuncRef {
	if p.info.Selections != nil {
		if s, ok := p.info.Selections[sel]; ok && (s.Kind() == types.MethodVal) {
			if fn, ok := s.Obj().(*types.Func); ok {
				if fd := in.declOf(p, fn); fd != nil {
					return &FuncRef{pkg: p, decl: fd, recv: recv, has: true}
				}
			}
		}
	}
	// a struct of another repository package (not type-checked here): find the method by the recorded type name
	if s, ok := recv.(*Struct); ok && s != nil && s.Type != "" {
		tn := s.Type
		if i := strings.LastIndex(tn, "."); i >= 0 {
			tn = tn[i+1:]
		}
		for _, q := range in.pkgs {
			if q == nil {
				continue
			}
			if fd := findFunc(q, "", tn, sel.Sel.Name); fd != nil {
				return &FuncRef{pkg: q, decl: fd, recv: recv, has: true}
			}
		}
	}
	return nil
}

func (in *Interp) args(p *pkgInfo, env *Env, ce *ast.CallExpr) []Value {
	if len(ce.Args) == 1 {
		if inner, ok := unparen(ce.Args[0]).(*ast.CallExpr); ok {
			vs := in.call(p, env, inner)
			if len(vs) != 1 {
				return vs
			}
			return vs
		}
	}
	out := make([]Value, 0, len(ce.Args))
	for _, a := range ce.Args {
		out = append(out, in.copyIfStruct(p, a, in.expr(p, env, a)))
	}
	if ce.Ellipsis != token.NoPos && len(out) > 0 {
		last := out[len(out)-1]
		out = out[:len(out)-1]
		if s, ok := last.(*Slice); ok && s != nil {
			out = append(out, s.E...)
		}
	}
	return out
}

func (in *Interp) call(p *pkgInfo, env *Env, ce *ast.CallExpr) []Value {
	in.tick(ce)
	name := selName(ce.Fun)
	if name == "?" || strings.Contains(name, "?") {
		name = strings.Join(strings.Fields(src(p, ce.Fun)), "")
	}
	if in.Extern != nil {
		if vs, ok := in.Extern(&CallCtx{In: in, Pkg: p, Env: env, Call: ce, Name: name}); ok {
			return vs
		}
	}
	// conversions
	if tv, ok := p.info.Types[ce.Fun]; ok && tv.IsType() && len(ce.Args) == 1 {
		return []Value{convert(in.expr(p, env, ce.Args[0]), tv.Type)}
	}
	fun := unparen(ce.Fun)
	// builtins and library functions
	if id, ok := fun.(*ast.Ident); ok {
		if _, shadow := env.lookup(id.Name); !shadow {
			if vs, ok := in.builtin(p, env, id.Name, ce); ok {
				return vs
			}
		}
	}
	if sel, ok := fun.(*ast.SelectorExpr); ok {
		if id, ok := sel.X.(*ast.Ident); ok {
			if _, local := env.lookup(id.Name); !local {
				if ip, path, isPkg := in.importedPkg(p, id); isPkg {
					if ip != nil && ip.pkg != nil {
						obj := ip.pkg.Scope().Lookup(sel.Sel.Name)
						if fn, ok := obj.(*types.Func); ok {
							if fd := in.declOf(ip, fn); fd != nil {
								return in.callDecl(ip, fd, nil, in.args(p, env, ce))
							}
						}
						if _, isType := obj.(*types.TypeName); isType && len(ce.Args) == 1 {
							return []Value{convert(in.expr(p, env, ce.Args[0]), obj.Type())}
						}
						evalFail("call of %s.%s: not a function of that package", path, sel.Sel.Name)
					}
					return in.library(path+"."+sel.Sel.Name, in.args(p, env, ce))
				}
			}
		}
		recv := in.expr(p, env, sel.X)
		if s, ok := recv.(*Struct); ok && s != nil {
			if f, ok := s.F[sel.Sel.Name]; ok && f != nil {
				return in.callValue(f, in.args(p, env, ce))
			}
		}
		if e, ok := recv.(*ErrVal); ok && sel.Sel.Name == "Error" && e != nil {
			return []Value{e.Msg}
		}
		if fr := in.methodOf(p, sel, recv); fr != nil {
			return in.callDecl(fr.pkg, fr.decl, recv, in.args(p, env, ce))
		}
		evalFail("call of unknown method %s on %T", name, recv)
	}
	f := in.expr(p, env, fun)
	return in.callValue(f, in.args(p, env, ce))
}

func convert(v Value, t types.Type) Value {
	bt, _ := t.Underlying().(*types.Basic)
	if bt == nil {
		return v
	}
	switch {
	case bt.Info()&types.IsInteger != 0:
		switch x := v.(type) {
		case int64:
			return x
		case float64:
			return int64(x)
		}
	case bt.Info()&types.IsFloat != 0:
		switch x := v.(type) {
		case int64:
			return float64(x)
		case float64:
			return x
		}
	case bt.Info()&types.IsString != 0:
		switch x := v.(type) {
		case string:
			return x
		case int64:
			return string(rune(x))
		}
	case bt.Info()&types.IsBoolean != 0:
		if _, ok := v.(bool); ok {
			return v
		}
	}
	evalFail("unsupported conversion of %T to %s", v, t)
	return nil
}

func (in *Interp) builtin(p *pkgInfo, env *Env, name string, ce *ast.CallExpr) ([]Value, bool) {
	switch name {
	case "len", "cap":
		v := in.expr(p, env, ce.Args[0])
		switch c := v.(type) {
		case nil:
			return []Value{int64(0)}, true
		case string:
			return []Value{int64(len(c))}, true
		case *Slice:
			if c == nil {
				return []Value{int64(0)}, true
			}
			return []Value{int64(len(c.E))}, true
		case *Map:
			if c == nil {
				return []Value{int64(0)}, true
			}
			return []Value{int64(len(c.M))}, true
		}
		evalFail("len of %T", v)
	case "append":
		as := in.args(p, env, ce)
		out := &Slice{}
		if s, ok := as[0].(*Slice); ok && s != nil {
			out.E = append(out.E, s.E...)
		} else if as[0] != nil && !isNilVal(as[0]) {
			evalFail("append to %T", as[0])
		}
		out.E = append(out.E, as[1:]...)
		return []Value{out}, true
	case "min", "max":
		as := in.args(p, env, ce)
		best := as[0]
		for _, a := range as[1:] {
			op := token.LSS
			if name == "max" {
				op = token.GTR
			}
			if binaryOp(op, a, best).(bool) {
				best = a
			}
		}
		return []Value{best}, true
	case "make":
		if len(ce.Args) >= 1 {
			switch ce.Args[0].(type) {
			case *ast.MapType:
				return []Value{&Map{M: map[interface{}]Value{}}}, true
			case *ast.ArrayType:
				s := &Slice{}
				if len(ce.Args) >= 2 {
					n, _ := in.expr(p, env, ce.Args[1]).(int64)
					var et types.Type
					if tv, ok := p.info.Types[ce.Args[0]]; ok && tv.Type != nil {
						if sl, ok := tv.Type.Underlying().(*types.Slice); ok {
							et = sl.Elem()
						}
					}
					for i := int64(0); i < n; i++ {
						s.E = append(s.E, in.zeroOf(et))
					}
				}
				return []Value{s}, true
			}
			if tv, ok := p.info.Types[ce.Args[0]]; ok && tv.Type != nil {
				switch tv.Type.Underlying().(type) {
				case *types.Map:
					return []Value{&Map{M: map[interface{}]Value{}}}, true
				case *types.Slice:
					return []Value{&Slice{}}, true
				}
			}
		}
		evalFail("unsupported make")
	case "delete":
		m, _ := in.expr(p, env, ce.Args[0]).(*Map)
		if m != nil {
			delete(m.M, mapKey(in.expr(p, env, ce.Args[1])))
		}
		return nil, true
	case "panic":
		evalFail("panic called: %v", in.expr(p, env, ce.Args[0]))
	case "float64", "float32":
		return []Value{convert(in.expr(p, env, ce.Args[0]), types.Typ[types.Float64])}, true
	case "int", "int64", "int32", "uint", "uint64", "uint32":
		return []Value{convert(in.expr(p, env, ce.Args[0]), types.Typ[types.Int64])}, true
	case "string":
		return []Value{convert(in.expr(p, env, ce.Args[0]), types.Typ[types.String])}, true
	}
	return nil, false
}

func strArg(as []Value, i int, fn string) string {
	if i >= len(as) {
		evalFail("%s: missing argument %d", fn, i)
	}
	s, ok := as[i].(string)
	if !ok {
		evalFail("%s: argument %d is %T, not a string", fn, i, as[i])
	}
	return s
}

func numArg(as []Value, i int, fn string) float64 {
	if i >= len(as) {
		evalFail("%s: missing argument %d", fn, i)
	}
	switch x := as[i].(type) {
	case float64:
		return x
	case int64:
		return float64(x)
	}
	evalFail("%s: argument %d is %T, not a number", fn, i, as[i])
	return 0
}

func strSlice(xs []string) *Slice {
	s := &Slice{}
	for _, x := range xs {
		s.E = append(s.E, x)
	}
	return s
}

// library: the few standard-library functions the interpreted code uses.
func (in *Interp) library(name string, as []Value) []Value {
	switch name {
	case "strings.HasPrefix":
		return []Value{strings.HasPrefix(strArg(as, 0, name), strArg(as, 1, name))}
	case "strings.HasSuffix":
		return []Value{strings.HasSuffix(strArg(as, 0, name), strArg(as, 1, name))}
	case "strings.Contains":
		return []Value{strings.Contains(strArg(as, 0, name), strArg(as, 1, name))}
	case "strings.ToLower":
		return []Value{strings.ToLower(strArg(as, 0, name))}
	case "strings.ToUpper":
		return []Value{strings.ToUpper(strArg(as, 0, name))}
	case "strings.TrimSpace":
		return []Value{strings.TrimSpace(strArg(as, 0, name))}
	case "strings.TrimPrefix":
		return []Value{strings.TrimPrefix(strArg(as, 0, name), strArg(as, 1, name))}
	case "strings.TrimSuffix":
		return []Value{strings.TrimSuffix(strArg(as, 0, name), strArg(as, 1, name))}
	case "strings.Index":
		return []Value{int64(strings.Index(strArg(as, 0, name), strArg(as, 1, name)))}
	case "strings.LastIndex":
		return []Value{int64(strings.LastIndex(strArg(as, 0, name), strArg(as, 1, name)))}
	case "strings.EqualFold":
		return []Value{strings.EqualFold(strArg(as, 0, name), strArg(as, 1, name))}
	case "strings.Split":
		return []Value{strSlice(strings.Split(strArg(as, 0, name), strArg(as, 1, name)))}
	case "strings.SplitN":
		n, _ := as[2].(int64)
		return []Value{strSlice(strings.SplitN(strArg(as, 0, name), strArg(as, 1, name), int(n)))}
	case "strings.Join":
		var xs []string
		if s, ok := as[0].(*Slice); ok && s != nil {
			for i := range s.E {
				xs = append(xs, strArg(s.E, i, name))
			}
		}
		return []Value{strings.Join(xs, strArg(as, 1, name))}
	case "strings.Compare":
		return []Value{int64(strings.Compare(strArg(as, 0, name), strArg(as, 1, name)))}
	case "math.Min":
		return []Value{math.Min(numArg(as, 0, name), numArg(as, 1, name))}
	case "math.Max":
		return []Value{math.Max(numArg(as, 0, name), numArg(as, 1, name))}
	case "math.Abs":
		return []Value{math.Abs(numArg(as, 0, name))}
	case "math.Round":
		return []Value{math.Round(numArg(as, 0, name))}
	case "math.Floor":
		return []Value{math.Floor(numArg(as, 0, name))}
	case "math.Ceil":
		return []Value{math.Ceil(numArg(as, 0, name))}
	case "math.Sqrt":
		return []Value{math.Sqrt(numArg(as, 0, name))}
	case "path/filepath.Base":
		return []Value{filepath.Base(strArg(as, 0, name))}
	case "path/filepath.Ext":
		return []Value{filepath.Ext(strArg(as, 0, name))}
	case "path/filepath.Dir":
		return []Value{filepath.Dir(strArg(as, 0, name))}
	case "path/filepath.Clean":
		return []Value{filepath.Clean(strArg(as, 0, name))}
	case "path/filepath.Abs":
		// pure on absolute paths only (a relative one would depend on the working directory of the translator)
		p := strArg(as, 0, name)
		if !filepath.IsAbs(p) {
			evalFail("filepath.Abs of the relative path %q", p)
		}
		return []Value{filepath.Clean(p), nil}
	case "path/filepath.Rel":
		r, err := filepath.Rel(strArg(as, 0, name), strArg(as, 1, name))
		if err != nil {
			return []Value{"", &ErrVal{Msg: err.Error()}}
		}
		return []Value{r, nil}
	case "strconv.Itoa":
		n, _ := as[0].(int64)
		return []Value{strconv.Itoa(int(n))}
	case "errors.New":
		return []Value{&ErrVal{Msg: strArg(as, 0, name)}}
	case "fmt.Errorf", "fmt.Sprintf":
		f := strArg(as, 0, name)
		rest := make([]interface{}, 0, len(as))
		for _, a := range as[1:] {
			if e, ok := a.(*ErrVal); ok && e != nil {
				rest = append(rest, e.Msg)
				continue
			}
			rest = append(rest, a)
		}
		s := fmt.Sprintf(strings.ReplaceAll(f, "%w", "%v"), rest...)
		if name == "fmt.Errorf" {
			return []Value{&ErrVal{Msg: s}}
		}
		return []Value{s}
	case "sort.Strings":
		if s, ok := as[0].(*Slice); ok && s != nil {
			sort.SliceStable(s.E, func(i, j int) bool { return strArg(s.E, i, name) < strArg(s.E, j, name) })
		}
		return nil
	}
	evalFail("call of unsupported library function %s", name)
	return nil
}

// ---------------------------------------------------------------------------------------------
// helpers for generators
// ---------------------------------------------------------------------------------------------

// mkStruct builds a struct value from alternating field name / value arguments.
func mkStruct(typ string, kv ...interface{}) *Struct {
	s := &Struct{Type: typ, F: map[string]Value{}}
	for i := 0; i+1 < len(kv); i += 2 {
		s.F[kv[i].(string)] = kv[i+1]
	}
	return s
}

func mkSlice(vs ...Value) *Slice { return &Slice{E: append([]Value(nil), vs...)} }

// evalBool / evalInt / evalString: call and project a single result.
func (in *Interp) call1(p *pkgInfo, fd *ast.FuncDecl, recv Value, args ...Value) (Value, error) {
	vs, err := in.CallFunc(p, fd, recv, args...)
	if err != nil {
		return nil, err
	}
	if len(vs) != 1 {
		return nil, &evalError{fmt.Sprintf("%s returned %d results", fd.Name.Name, len(vs))}
	}
	return vs[0], nil
}

// inferCmp names the comparison a three-point evaluation (a<b, a=b, a>b) realises.
func inferCmp(lt, eq, gt bool) (token.Token, bool) {
	switch {
	case lt && !eq && !gt:
		return token.LSS, true
	case lt && eq && !gt:
		return token.LEQ, true
	case !lt && !eq && gt:
		return token.GTR, true
	case !lt && eq && gt:
		return token.GEQ, true
	case !lt && eq && !gt:
		return token.EQL, true
	case lt && !eq && gt:
		return token.NEQ, true
	}
	return token.ILLEGAL, false
}

func coqBool(b bool) string {
	if b {
		return "true"
	}
	return "false"
}

// coqQfrac renders n/d as a Coq Q literal.
func coqQfrac(n, d int64) string { return fmt.Sprintf("((%d) # %d)%%Q", n, d) }

func coqZint(n int64) string { return fmt.Sprintf("(%d)%%Z", n) }

// emitTable writes `Definition <name> : list (<typ>) := [rows].` with a few rows per line.
func emitTable(b *strings.Builder, name, typ string, rows []string) {
	fmt.Fprintf(b, "Definition %s : list (%s) :=\n  [", name, typ)
	for i, r := range rows {
		if i > 0 {
			b.WriteString(";")
			if i%4 == 0 {
				b.WriteString("\n   ")
			} else {
				b.WriteString(" ")
			}
		}
		b.WriteString(r)
	}
	b.WriteString("].\n")
}
