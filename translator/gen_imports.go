package main

import (
	"fmt"
	"go/ast"
	"go/token"
	"strconv"
	"strings"
)

// gen_imports: constants of the import graph model (coq/Deps/Imports.v, Metrics.v), C12.
func init() {
	generators = append(generators, func() {
		an := loadPkg("internal/analyzer")
		svc := loadPkg("service")
		if an == nil || svc == nil {
			fail("gen_imports: packages not loadable")
			return
		}
		var b strings.Builder
		b.WriteString("Open Scope string_scope.\n")

		// ---- stdlib table of isStandardLibrary -------------------------------------------
		fd := findFunc(an, "module_analyzer.go", "ModuleAnalyzer", "isStandardLibrary")
		var names []string
		if fd != nil {
			ast.Inspect(fd, func(nd ast.Node) bool {
				cl, ok := nd.(*ast.CompositeLit)
				if !ok {
					return true
				}
				if _, ok := cl.Type.(*ast.MapType); !ok {
					return true
				}
				for _, el := range cl.Elts {
					if kv, ok := el.(*ast.KeyValueExpr); ok {
						if k, ok := kv.Key.(*ast.BasicLit); ok && k.Kind == token.STRING {
							if id, ok := kv.Value.(*ast.Ident); ok && id.Name == "true" {
								if s, err := strconv.Unquote(k.Value); err == nil {
									names = append(names, s)
								}
							}
						}
					}
				}
				return false
			})
		}
		if len(names) == 0 {
			fail("gen_imports: stdlib table of isStandardLibrary not found")
		}
		b.WriteString("Definition stdlib_modules : list string := [")
		for i, n := range names {
			if i > 0 {
				b.WriteString("; ")
			}
			fmt.Fprintf(&b, "%q", n)
		}
		b.WriteString("].\n")
		b.WriteString("(* the harness gives the i-th name of the table the code stdlib_code_base + i *)\n")
		b.WriteString("Definition stdlib_code_base : N := 1000%N.\n")

		// ---- analysis options the CLI path uses (AnalyzeDependencies) ---------------------
		ad := findFunc(svc, "system_analysis_service.go", "SystemAnalysisServiceImpl", "AnalyzeDependencies")
		if ad == nil {
			fail("gen_imports: AnalyzeDependencies not found")
			return
		}
		fields := compositeFields(ad, "analyzer.ModuleAnalysisOptions")
		for _, f := range [][2]string{{"IncludeStdLib", "include_stdlib"}, {"IncludeThirdParty", "include_third_party"}, {"FollowRelative", "follow_relative"}} {
			ok := false
			if e, has := fields[f[0]]; has {
				if ce, isCall := e.(*ast.CallExpr); isCall && selName(ce.Fun) == "domain.BoolValue" && len(ce.Args) == 2 {
					if id, isId := ce.Args[1].(*ast.Ident); isId && (id.Name == "true" || id.Name == "false") {
						fmt.Fprintf(&b, "Definition %s : bool := %s.\n", f[1], id.Name)
						ok = true
					}
				}
			}
			if !ok {
				fail("gen_imports: default of %s in AnalyzeDependencies not found", f[0])
			}
		}
		writeGen("ImportsConst.v", b.String())

		for _, f := range []string{"AnalyzeFiles", "analyzeModuleDependencies", "collectModuleImports", "walkStatements",
			"resolveImport", "resolveRelativeImport", "resolveAbsoluteImport", "resolveAbsoluteImportWithProject",
			"moduleNameFromImport", "filePathToModuleName", "pathToModuleName", "isStandardLibrary", "isTypeCheckingCondition",
			"isNotTypeCheckingCondition", "runtimeValue", "containsTypeChecking", "dirExists"} {
			recordDigest(an, "module_analyzer.go", "ModuleAnalyzer", f)
		}
		for _, f := range []string{"GetReExportMap", "ResolveReExport", "findInitFile", "parseInitFile", "processImportFrom"} {
			recordDigest(an, "reexport_resolver.go", "ReExportResolver", f)
		}
		for _, f := range []string{"AddModule", "AddDependency"} {
			recordDigest(an, "dependency_graph.go", "DependencyGraph", f)
		}
		for _, f := range []string{"calculateModuleMetrics", "calculateAbstractness"} {
			recordDigest(an, "coupling_metrics.go", "CouplingMetricsCalculator", f)
		}
		for _, f := range []string{"AnalyzeDependencies", "buildDependencyMatrix", "calculateMaxDepth", "calculateDepthFromModule",
			"extractModuleMetrics", "findProjectRoot"} {
			recordDigest(svc, "system_analysis_service.go", "SystemAnalysisServiceImpl", f)
		}
		recordDigest(svc, "system_analysis_service.go", "", "acyclicChainHeights")
	})
}
