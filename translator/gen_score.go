package main

// Translates the arithmetic core of domain/analyze.go (the penalty functions, the two normalisation helpers and the
// grade mapping) statement by statement into Gallina over Q / Z.  Output: coq/Gen/ScoreGen.v.  The hand-written model
// Score/ScoreQ.v is then *proved equal* to these generated functions (Score/ScoreTie.v), so every C15 theorem is about
// what the Go source says now.  Supported Go subset: if / else-less if with return or assignments, :=, =, +=, return,
// expression switch without tag whose cases return; float and int arithmetic; float64(x), int(x), math.Round/Min/Max,
// the idiom math.Ceil(math.Log2(e)); fields of the receiver; package-level constants.

import (
	"fmt"
	"go/ast"
	"go/token"
	"go/types"
	"strings"
)

type scoreTr struct {
	p      *pkgInfo
	recv   string            // receiver identifier
	fields map[string]string // Go field -> Coq projection of Score.ScoreQ.summary
	kinds  map[string]string // variable -> "Q" | "Z"
	errs   []string
}

var summaryFields = map[string]string{
	"TotalFiles": "total_files", "DepsEnabled": "deps_enabled", "ArchEnabled": "arch_enabled",
	"DepsTotalModules": "deps_total_modules", "DepsModulesInCycles": "deps_modules_in_cycles", "DepsMaxDepth": "deps_max_depth",
	"DepsMainSequenceDeviation": "deps_msd", "ArchCompliance": "arch_compliance", "AverageComplexity": "average_complexity",
	"HighComplexityCount": "high_complexity_count", "DeadCodeCount": "dead_code_count", "CriticalDeadCode": "critical_dead",
	"WarningDeadCode": "warning_dead", "InfoDeadCode": "info_dead", "CodeDuplication": "code_duplication",
	"CBOClasses": "cbo_classes", "HighCouplingClasses": "high_coupling", "MediumCouplingClasses": "medium_coupling",
	"LCOMClasses": "lcom_classes", "HighLCOMClasses": "high_lcom", "MediumLCOMClasses": "medium_lcom",
}

var fieldKind = map[string]string{
	"deps_msd": "Q", "arch_compliance": "Q", "average_complexity": "Q", "code_duplication": "Q",
	"deps_enabled": "B", "arch_enabled": "B",
}

func (t *scoreTr) err(format string, a ...interface{}) string {
	t.errs = append(t.errs, fmt.Sprintf(format, a...))
	return "(* untranslatable *)"
}

// kind of an expression: "Q", "Z" or "B"
func (t *scoreTr) kind(e ast.Expr) string {
	switch x := e.(type) {
	case *ast.ParenExpr:
		return t.kind(x.X)
	case *ast.BasicLit:
		if x.Kind == token.FLOAT {
			return "Q"
		}
		return "Z"
	case *ast.Ident:
		if k, ok := t.kinds[x.Name]; ok {
			return k
		}
		if obj := t.p.pkg.Scope().Lookup(x.Name); obj != nil {
			if c, ok := obj.(*types.Const); ok {
				if b, ok := c.Type().Underlying().(*types.Basic); ok && b.Info()&types.IsFloat != 0 {
					return "Q"
				}
				return "Z"
			}
		}
		return "Z"
	case *ast.SelectorExpr:
		if id, ok := x.X.(*ast.Ident); ok && id.Name == t.recv {
			if f, ok := t.fields[x.Sel.Name]; ok {
				if k, ok := fieldKind[f]; ok {
					return k
				}
				return "Z"
			}
		}
		return "Z"
	case *ast.CallExpr:
		fn := callName(x)
		switch fn {
		case "float64", "math.Min", "math.Max", "math.Round", "math.Ceil", "math.Log2", "math.Log10", "math.Floor":
			return "Q"
		case "int":
			return "Z"
		}
		return "Z"
	case *ast.BinaryExpr:
		switch x.Op {
		case token.LSS, token.LEQ, token.GTR, token.GEQ, token.EQL, token.NEQ, token.LAND, token.LOR:
			return "B"
		}
		if t.kind(x.X) == "Q" || t.kind(x.Y) == "Q" {
			return "Q"
		}
		return "Z"
	case *ast.UnaryExpr:
		if x.Op == token.NOT {
			return "B"
		}
		return t.kind(x.X)
	}
	return "Z"
}

func callName(c *ast.CallExpr) string {
	switch f := c.Fun.(type) {
	case *ast.Ident:
		return f.Name
	case *ast.SelectorExpr:
		if id, ok := f.X.(*ast.Ident); ok {
			return id.Name + "." + f.Sel.Name
		}
	}
	return "?"
}

// expression of kind "Q": every integer sub-expression is injected
func (t *scoreTr) q(e ast.Expr) string {
	if t.kind(e) == "Z" {
		return "(inject " + t.z(e) + ")"
	}
	switch x := e.(type) {
	case *ast.ParenExpr:
		return t.q(x.X)
	case *ast.BasicLit:
		s, ok := mcpLitQ(x)
		if !ok {
			return t.err("literal %s", x.Value)
		}
		return s
	case *ast.Ident:
		if _, ok := t.kinds[x.Name]; ok {
			return x.Name
		}
		return "domain_" + x.Name
	case *ast.SelectorExpr:
		return fmt.Sprintf("(%s s)", t.fields[x.Sel.Name])
	case *ast.BinaryExpr:
		op := map[token.Token]string{token.ADD: "+", token.SUB: "-", token.MUL: "*", token.QUO: "/"}[x.Op]
		if op == "" {
			return t.err("binary operator %s", x.Op)
		}
		return fmt.Sprintf("(%s %s %s)", t.q(x.X), op, t.q(x.Y))
	case *ast.CallExpr:
		switch callName(x) {
		case "float64":
			return "(inject " + t.z(x.Args[0]) + ")"
		case "math.Min":
			return fmt.Sprintf("(Qmin %s %s)", t.q(x.Args[0]), t.q(x.Args[1]))
		case "math.Max":
			return fmt.Sprintf("(Qmax %s %s)", t.q(x.Args[0]), t.q(x.Args[1]))
		case "math.Round":
			return "(inject (round_half_away " + t.q(x.Args[0]) + "))"
		case "math.Ceil":
			// only the idiom math.Ceil(math.Log2(e)) with an integer-valued e is supported: ceil(log2 n) = Z.log2_up n
			if in, ok := x.Args[0].(*ast.CallExpr); ok && callName(in) == "math.Log2" {
				return "(inject (Z.log2_up " + t.zOfQ(in.Args[0]) + "))"
			}
			return t.err("math.Ceil of something else than math.Log2")
		}
		return t.err("call %s", callName(x))
	}
	return t.err("expression %T", e)
}

// integer value of a Q expression that is integer-valued by construction (float64(n) + 1)
func (t *scoreTr) zOfQ(e ast.Expr) string {
	switch x := e.(type) {
	case *ast.ParenExpr:
		return t.zOfQ(x.X)
	case *ast.BinaryExpr:
		if x.Op == token.ADD {
			return fmt.Sprintf("(%s + %s)%%Z", t.zOfQ(x.X), t.zOfQ(x.Y))
		}
	case *ast.CallExpr:
		if callName(x) == "float64" {
			return t.z(x.Args[0])
		}
	case *ast.BasicLit:
		if x.Kind == token.INT {
			s, _ := mcpLitZ(x)
			return s
		}
	}
	return t.err("integer-valued float expression %T", e)
}

func (t *scoreTr) z(e ast.Expr) string {
	switch x := e.(type) {
	case *ast.ParenExpr:
		return t.z(x.X)
	case *ast.BasicLit:
		s, ok := mcpLitZ(x)
		if !ok {
			return t.err("int literal %s", x.Value)
		}
		return s
	case *ast.Ident:
		if _, ok := t.kinds[x.Name]; ok {
			return x.Name
		}
		return "domain_" + x.Name
	case *ast.SelectorExpr:
		return fmt.Sprintf("(%s s)", t.fields[x.Sel.Name])
	case *ast.BinaryExpr:
		op := map[token.Token]string{token.ADD: "+", token.SUB: "-", token.MUL: "*"}[x.Op]
		if op == "" {
			return t.err("int operator %s", x.Op)
		}
		return fmt.Sprintf("(%s %s %s)%%Z", t.z(x.X), op, t.z(x.Y))
	case *ast.CallExpr:
		if callName(x) == "int" {
			a := x.Args[0]
			if c, ok := a.(*ast.CallExpr); ok && callName(c) == "math.Round" {
				return "(round_half_away " + t.q(c.Args[0]) + ")"
			}
			// int(x) truncates toward zero; every use here is on a non-negative value: floor
			return "(Qfloor " + t.q(a) + ")"
		}
		return t.err("int call %s", callName(x))
	}
	return t.err("int expression %T", e)
}

func (t *scoreTr) b(e ast.Expr) string {
	switch x := e.(type) {
	case *ast.ParenExpr:
		return t.b(x.X)
	case *ast.UnaryExpr:
		if x.Op == token.NOT {
			return "(negb " + t.b(x.X) + ")"
		}
	case *ast.SelectorExpr:
		return fmt.Sprintf("(%s s)", t.fields[x.Sel.Name])
	case *ast.BinaryExpr:
		switch x.Op {
		case token.LAND:
			return fmt.Sprintf("(%s && %s)", t.b(x.X), t.b(x.Y))
		case token.LOR:
			return fmt.Sprintf("(%s || %s)", t.b(x.X), t.b(x.Y))
		}
		if t.kind(x.X) == "Q" || t.kind(x.Y) == "Q" {
			l, r := t.q(x.X), t.q(x.Y)
			switch x.Op {
			case token.LEQ:
				return fmt.Sprintf("(Qle_bool %s %s)", l, r)
			case token.GEQ:
				return fmt.Sprintf("(Qle_bool %s %s)", r, l)
			case token.LSS:
				return fmt.Sprintf("(Qltb %s %s)", l, r)
			case token.GTR:
				return fmt.Sprintf("(Qltb %s %s)", r, l)
			}
		} else {
			l, r := t.z(x.X), t.z(x.Y)
			switch x.Op {
			case token.LEQ:
				return fmt.Sprintf("(%s <=? %s)%%Z", l, r)
			case token.GEQ:
				return fmt.Sprintf("(%s <=? %s)%%Z", r, l)
			case token.LSS:
				return fmt.Sprintf("(%s <? %s)%%Z", l, r)
			case token.GTR:
				return fmt.Sprintf("(%s <? %s)%%Z", r, l)
			case token.EQL:
				return fmt.Sprintf("(%s =? %s)%%Z", l, r)
			}
		}
	}
	return t.err("condition %T", e)
}

func (t *scoreTr) val(e ast.Expr, kind string) string {
	if kind == "Q" {
		return t.q(e)
	}
	if kind == "B" {
		return t.b(e)
	}
	return t.z(e)
}

// assigned returns the variables (already declared outside) assigned anywhere in stmts, in first-assignment order
func (t *scoreTr) assigned(stmts []ast.Stmt, declared map[string]bool) []string {
	var out []string
	seen := map[string]bool{}
	local := map[string]bool{}
	var walk func(ss []ast.Stmt)
	walk = func(ss []ast.Stmt) {
		for _, s := range ss {
			switch x := s.(type) {
			case *ast.AssignStmt:
				if id, ok := x.Lhs[0].(*ast.Ident); ok {
					if x.Tok == token.DEFINE {
						local[id.Name] = true
					} else if declared[id.Name] && !local[id.Name] && !seen[id.Name] {
						seen[id.Name] = true
						out = append(out, id.Name)
					}
				}
			case *ast.IfStmt:
				walk(x.Body.List)
			}
		}
	}
	walk(stmts)
	return out
}

// block translates a statement list whose value is `result` (an expression over the variables in scope) unless a
// return statement is reached first.  retKind is the kind of the function result.
func (t *scoreTr) block(stmts []ast.Stmt, result string, retKind string, declared map[string]bool, ind string) string {
	if len(stmts) == 0 {
		return result
	}
	s, rest := stmts[0], stmts[1:]
	switch x := s.(type) {
	case *ast.ReturnStmt:
		return t.val(x.Results[0], retKind)
	case *ast.AssignStmt:
		id, ok := x.Lhs[0].(*ast.Ident)
		if !ok {
			return t.err("assignment target %T", x.Lhs[0])
		}
		var rhs string
		switch x.Tok {
		case token.DEFINE:
			k := t.kind(x.Rhs[0])
			t.kinds[id.Name] = k
			declared[id.Name] = true
			rhs = t.val(x.Rhs[0], k)
		case token.ASSIGN:
			rhs = t.val(x.Rhs[0], t.kinds[id.Name])
		case token.ADD_ASSIGN:
			if t.kinds[id.Name] == "Q" {
				rhs = fmt.Sprintf("(%s + %s)", id.Name, t.q(x.Rhs[0]))
			} else {
				rhs = fmt.Sprintf("(%s + %s)%%Z", id.Name, t.z(x.Rhs[0]))
			}
		case token.SUB_ASSIGN:
			if t.kinds[id.Name] == "Q" {
				rhs = fmt.Sprintf("(%s - %s)", id.Name, t.q(x.Rhs[0]))
			} else {
				rhs = fmt.Sprintf("(%s - %s)%%Z", id.Name, t.z(x.Rhs[0]))
			}
		default:
			return t.err("assignment operator %s", x.Tok)
		}
		return fmt.Sprintf("let %s := %s in\n%s%s", id.Name, rhs, ind, t.block(rest, result, retKind, declared, ind))
	case *ast.IfStmt:
		if x.Else != nil || x.Init != nil {
			return t.err("if with else/init")
		}
		cond := t.b(x.Cond)
		// does the body end in return?  then: if c then <body> else <rest>
		if n := len(x.Body.List); n > 0 {
			if _, ok := x.Body.List[n-1].(*ast.ReturnStmt); ok {
				inner := copyDecl(declared)
				return fmt.Sprintf("if %s then %s\n%selse %s", cond, t.block(x.Body.List, "", retKind, inner, ind+"  "), ind,
					t.block(rest, result, retKind, declared, ind))
			}
		}
		vars := t.assigned(x.Body.List, declared)
		if len(vars) != 1 {
			return t.err("if body assigning %d outer variables (exactly one supported)", len(vars))
		}
		v := vars[0]
		inner := copyDecl(declared)
		body := t.block(x.Body.List, v, t.kinds[v], inner, ind+"  ")
		return fmt.Sprintf("let %s := if %s then %s else %s in\n%s%s", v, cond, body, v, ind, t.block(rest, result, retKind, declared, ind))
	case *ast.SwitchStmt:
		if x.Tag != nil || x.Init != nil {
			return t.err("switch with tag")
		}
		out := ""
		closing := ""
		for _, c := range x.Body.List {
			cc := c.(*ast.CaseClause)
			ret, ok := cc.Body[len(cc.Body)-1].(*ast.ReturnStmt)
			if !ok {
				return t.err("switch case without return")
			}
			if cc.List == nil {
				out += t.val(ret.Results[0], retKind)
			} else {
				out += fmt.Sprintf("if %s then %s else ", t.b(cc.List[0]), t.val(ret.Results[0], retKind))
			}
		}
		return out + closing
	}
	return t.err("statement %T", s)
}

func copyDecl(m map[string]bool) map[string]bool {
	c := map[string]bool{}
	for k, v := range m {
		c[k] = v
	}
	return c
}

func init() {
	generators = append(generators, func() {
		p := loadPkg("domain")
		var b strings.Builder
		b.WriteString("From Coq Require Import Qround Bool.\nFrom PV Require Import Gen.DomainConst Score.ScoreBase.\nOpen Scope Q_scope.\n\n")
		type fn struct {
			recv, name string
			params     []string // extra parameters "name:kind"
			ret        string
		}
		fns := []fn{
			{"AnalyzeSummary", "calculateComplexityPenalty", nil, "Z"},
			{"AnalyzeSummary", "calculateDeadCodePenalty", []string{"normalizationFactor:Q"}, "Z"},
			{"AnalyzeSummary", "calculateDuplicationPenalty", nil, "Z"},
			{"AnalyzeSummary", "calculateCouplingPenalty", nil, "Z"},
			{"AnalyzeSummary", "calculateCohesionPenalty", nil, "Z"},
			{"AnalyzeSummary", "calculateDependencyPenalty", nil, "Z"},
			{"AnalyzeSummary", "calculateArchitecturePenalty", nil, "Z"},
			{"", "normalizeToScoreBase", []string{"penalty:Z", "maxPenalty:Z"}, "Z"},
			{"", "penaltyToScore", []string{"penalty:Z", "maxPenalty:Z"}, "Z"},
		}
		for _, f := range fns {
			fd := findFunc(p, "analyze.go", f.recv, f.name)
			if fd == nil {
				fail("score: function %s not found", f.name)
				continue
			}
			t := &scoreTr{p: p, fields: summaryFields, kinds: map[string]string{}}
			declared := map[string]bool{}
			sig := ""
			if f.recv != "" {
				t.recv = fd.Recv.List[0].Names[0].Name
				sig = " (s : summary)"
			}
			for _, prm := range f.params {
				nk := strings.Split(prm, ":")
				t.kinds[nk[0]] = nk[1]
				declared[nk[0]] = true
				sig += fmt.Sprintf(" (%s : %s)", nk[0], nk[1])
			}
			body := t.block(fd.Body.List, "(* no return *)", f.ret, declared, "  ")
			if len(t.errs) > 0 {
				fail("score: %s uses Go outside the translated subset: %s", f.name, strings.Join(t.errs, "; "))
				continue
			}
			fmt.Fprintf(&b, "(* domain/analyze.go: %s *)\nDefinition go_%s%s : %s :=\n  %s.\n\n", f.name, f.name, sig, f.ret, body)
		}
		// GetGradeFromScore: switch over thresholds returning string literals
		if fd := findFunc(p, "analyze.go", "", "GetGradeFromScore"); fd != nil {
			t := &scoreTr{p: p, fields: summaryFields, kinds: map[string]string{"score": "Z"}}
			sw, ok := fd.Body.List[0].(*ast.SwitchStmt)
			if !ok {
				fail("score: GetGradeFromScore is not a switch")
			} else {
				out := ""
				for _, c := range sw.Body.List {
					cc := c.(*ast.CaseClause)
					ret := cc.Body[len(cc.Body)-1].(*ast.ReturnStmt)
					lit := strings.Trim(ret.Results[0].(*ast.BasicLit).Value, "\"")
					g := map[string]string{"A": "GA", "B": "GB", "C": "GC", "D": "GD", "F": "GF"}[lit]
					if g == "" {
						fail("score: unknown grade %q", lit)
					}
					if cc.List == nil {
						out += g
					} else {
						out += fmt.Sprintf("if %s then %s else ", t.b(cc.List[0]), g)
					}
				}
				if len(t.errs) > 0 {
					fail("score: GetGradeFromScore: %s", strings.Join(t.errs, "; "))
				}
				fmt.Fprintf(&b, "(* domain/analyze.go: GetGradeFromScore *)\nDefinition go_GetGradeFromScore (score : Z) : grade :=\n  %s.\n", out)
			}
		} else {
			fail("score: GetGradeFromScore not found")
		}
		writeGen("ScoreGen.v", b.String())
	})
}
