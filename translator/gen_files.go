package main

import (
	"fmt"
	"go/ast"
	"go/token"
	"strconv"
	"strings"
)

// coqStr renders a Go string as a Coq list of character codes (runes).
func coqStr(s string) string {
	parts := make([]string, 0, len(s))
	for _, r := range s {
		parts = append(parts, strconv.Itoa(int(r)))
	}
	return "[" + strings.Join(parts, "; ") + "]%N"
}

func coqStrList(ss []string) string {
	parts := make([]string, len(ss))
	for i, s := range ss {
		parts[i] = coqStr(s)
	}
	return "[" + strings.Join(parts, ";\n   ") + "]"
}

// stringSliceAssigned finds `name := []string{...}` inside fd and returns the literals.
func stringSliceAssigned(fd *ast.FuncDecl, name string) ([]string, bool) {
	var res []string
	found := false
	ast.Inspect(fd, func(n ast.Node) bool {
		as, ok := n.(*ast.AssignStmt)
		if !ok || len(as.Lhs) != 1 || len(as.Rhs) != 1 {
			return true
		}
		id, ok := as.Lhs[0].(*ast.Ident)
		if !ok || id.Name != name {
			return true
		}
		cl, ok := as.Rhs[0].(*ast.CompositeLit)
		if !ok {
			return true
		}
		found = true
		for _, e := range cl.Elts {
			bl, ok := e.(*ast.BasicLit)
			if !ok || bl.Kind != token.STRING {
				found = false
				return false
			}
			s, err := strconv.Unquote(bl.Value)
			if err != nil {
				found = false
				return false
			}
			res = append(res, s)
		}
		return false
	})
	return res, found
}

// boolAssigned finds `name := true|false` inside fd.
func boolAssigned(fd *ast.FuncDecl, name string) (bool, bool) {
	val, found := false, false
	ast.Inspect(fd, func(n ast.Node) bool {
		as, ok := n.(*ast.AssignStmt)
		if !ok || len(as.Lhs) != 1 || len(as.Rhs) != 1 {
			return true
		}
		id, ok := as.Lhs[0].(*ast.Ident)
		if !ok || id.Name != name {
			return true
		}
		v, ok := as.Rhs[0].(*ast.Ident)
		if ok && (v.Name == "true" || v.Name == "false") {
			val, found = v.Name == "true", true
		}
		return false
	})
	return val, found
}

// comparedStrings collects the string literals x of every `ident == x` in fd.
func comparedStrings(fd *ast.FuncDecl, ident string) []string {
	var res []string
	ast.Inspect(fd, func(n ast.Node) bool {
		be, ok := n.(*ast.BinaryExpr)
		if !ok || be.Op != token.EQL {
			return true
		}
		id, ok := be.X.(*ast.Ident)
		bl, ok2 := be.Y.(*ast.BasicLit)
		if ok && ok2 && id.Name == ident && bl.Kind == token.STRING {
			if s, err := strconv.Unquote(bl.Value); err == nil {
				res = append(res, s)
			}
		}
		return true
	})
	return res
}

func init() {
	generators = append(generators, func() {
		var b strings.Builder
		b.WriteString("Open Scope N_scope.\n\n")
		svc := loadPkg("service")
		app := loadPkg("app")

		// directories never descended into: service/file_reader.go shouldSkipDirectory
		if fd := findFunc(svc, "file_reader.go", "FileReaderImpl", "shouldSkipDirectory"); fd == nil {
			fail("function not found: service/file_reader.go:FileReaderImpl.shouldSkipDirectory")
		} else if dirs, ok := stringSliceAssigned(fd, "skipDirs"); !ok || len(dirs) == 0 {
			fail("shouldSkipDirectory: `skipDirs := []string{...}` of string literals not found")
		} else {
			fmt.Fprintf(&b, "(* service/file_reader.go shouldSkipDirectory: skipDirs (matched with filepath.Match, lower-cased) *)\n")
			fmt.Fprintf(&b, "Definition filesel_skip_dirs : list (list N) :=\n  %s.\n\n", coqStrList(dirs))
		}

		// extensions of a Python file: service/file_reader.go IsValidPythonFile
		if fd := findFunc(svc, "file_reader.go", "FileReaderImpl", "IsValidPythonFile"); fd == nil {
			fail("function not found: service/file_reader.go:FileReaderImpl.IsValidPythonFile")
		} else if exts := comparedStrings(fd, "ext"); len(exts) == 0 {
			fail("IsValidPythonFile: no `ext == \"...\"` comparison found")
		} else {
			fmt.Fprintf(&b, "(* service/file_reader.go IsValidPythonFile: lower-cased extension is one of *)\n")
			fmt.Fprintf(&b, "Definition filesel_python_exts : list (list N) :=\n  %s.\n\n", coqStrList(exts))
		}

		// default patterns of `pyscn analyze`: app/analyze_usecase.go getFilePatterns
		if fd := findFunc(app, "analyze_usecase.go", "AnalyzeUseCase", "getFilePatterns"); fd == nil {
			fail("function not found: app/analyze_usecase.go:AnalyzeUseCase.getFilePatterns")
		} else {
			inc, ok1 := stringSliceAssigned(fd, "defaultInclude")
			exc, ok2 := stringSliceAssigned(fd, "defaultExclude")
			rec, ok3 := boolAssigned(fd, "defaultRecursive")
			if !ok1 || !ok2 || !ok3 {
				fail("getFilePatterns: defaultInclude/defaultExclude/defaultRecursive literals not found")
			} else {
				fmt.Fprintf(&b, "(* app/analyze_usecase.go getFilePatterns *)\n")
				fmt.Fprintf(&b, "Definition filesel_default_include : list (list N) :=\n  %s.\n", coqStrList(inc))
				fmt.Fprintf(&b, "Definition filesel_default_exclude : list (list N) :=\n  %s.\n", coqStrList(exc))
				fmt.Fprintf(&b, "Definition filesel_default_recursive : bool := %v.\n", rec)
			}
		}
		writeGen("FileSelConst.v", b.String())

		for _, f := range []string{"CollectPythonFiles", "collectFromDirectory", "shouldIncludeFile", "shouldSkipDirectory", "IsValidPythonFile"} {
			recordDigest(svc, "file_reader.go", "FileReaderImpl", f)
		}
		for _, f := range []string{"uniqueFiles", "matchesPattern"} {
			recordDigest(svc, "file_reader.go", "", f)
		}
		recordDigest(app, "analyze_usecase.go", "AnalyzeUseCase", "getFilePatterns")
		recordDigest(app, "file_resolution_helper.go", "", "ResolveFilePaths")
		recordDigest(app, "file_resolution_helper.go", "", "uniquePaths")
		recordDigest(svc, "file_reader.go", "FileReaderImpl", "FileExists")
	})
}
