package main

import (
	"os"
	"testing"
)

// Sanity runs of the interpreter on functions of the repository (VERIF_REPO, default /repo).
func testRepo(t *testing.T) {
	repo = os.Getenv("VERIF_REPO")
	if repo == "" {
		repo = "/repo"
	}
	if _, err := os.Stat(repo); err != nil {
		t.Skip("no repository")
	}
}

func TestEvalClone(t *testing.T) {
	testRepo(t)
	p := loadPkg("internal/analyzer")
	in := newInterp(p)
	cfg := mkStruct("CloneDetectorConfig", "Type1Threshold", 0.9, "Type2Threshold", 0.8, "Type3Threshold", 0.7, "Type4Threshold", 0.6,
		"MinNodes", int64(10), "MinLines", int64(5))
	cd := mkStruct("CloneDetector", "cloneDetectorConfig", cfg)
	fd := findFunc(p, "clone_detector.go", "CloneDetector", "classifyCloneType")
	for _, c := range []struct {
		s    float64
		want int64
	}{{0.95, 1}, {0.9, 1}, {0.85, 2}, {0.7, 3}, {0.65, 4}, {0.5, 0}} {
		v, err := in.call1(p, fd, cd, c.s, 0.0)
		if err != nil {
			t.Fatal(err)
		}
		if v != c.want {
			t.Errorf("classify(%v) = %v, want %v", c.s, v, c.want)
		}
	}
	fo := findFunc(p, "clone_detector.go", "CloneDetector", "isOverlappingLocation")
	l1 := mkStruct("CodeLocation", "FilePath", "a", "StartLine", int64(1), "EndLine", int64(5))
	l2 := mkStruct("CodeLocation", "FilePath", "a", "StartLine", int64(5), "EndLine", int64(9))
	l3 := mkStruct("CodeLocation", "FilePath", "a", "StartLine", int64(6), "EndLine", int64(9))
	for _, c := range []struct {
		a, b *Struct
		want bool
	}{{l1, l2, true}, {l1, l3, false}, {l3, l1, false}, {l2, l3, true}} {
		v, err := in.call1(p, fo, cd, c.a, c.b)
		if err != nil {
			t.Fatal(err)
		}
		if v != c.want {
			t.Errorf("overlap = %v, want %v", v, c.want)
		}
	}
	fi := findFunc(p, "clone_detector.go", "CloneDetector", "shouldIncludeFragment")
	v, err := in.call1(p, fi, cd, mkStruct("CodeFragment", "Size", int64(10), "LineCount", int64(4)))
	if err != nil || v != false {
		t.Errorf("shouldIncludeFragment: %v %v", v, err)
	}
}

func TestEvalTed(t *testing.T) {
	testRepo(t)
	p := loadPkg("internal/analyzer")
	in := newInterp(p)
	c := mkStruct("PythonCostModel")
	for name, cases := range map[string][][3]interface{}{
		"areRelatedNodeTypes": {{"For", "AsyncFor", true}, {"AsyncFor", "For", true}, {"For", "If", false}},
		"areSameCategory":     {{"For", "While", true}, {"For", "ClassDef", false}, {"ClassDef", "FunctionDef", true}},
	} {
		fd := findFunc(p, "apted_cost.go", "PythonCostModel", name)
		for _, cs := range cases {
			v, err := in.call1(p, fd, c, cs[0], cs[1])
			if err != nil {
				t.Fatal(name, err)
			}
			if v != cs[2] {
				t.Errorf("%s(%v,%v) = %v", name, cs[0], cs[1], v)
			}
		}
	}
	fd := findFunc(p, "apted_cost.go", "PythonCostModel", "isTopLevelDefinition")
	v, err := in.call1(p, fd, c, "ClassDef")
	if err != nil || v != true {
		t.Errorf("isTopLevelDefinition: %v %v", v, err)
	}
	fb := findFunc(p, "framework_patterns.go", "", "IsBoilerplateLabel")
	v, err = in.call1(p, fb, nil, "Name(Optional)")
	t.Logf("IsBoilerplateLabel(Name(Optional)) = %v %v", v, err)
}

func TestEvalDeps(t *testing.T) {
	testRepo(t)
	p := loadPkg("internal/analyzer")
	in := newInterp(p)
	fd := findFunc(p, "circular_detector.go", "CircularDependencyDetector", "assessCycleSeverity")
	nodes := &Map{M: map[interface{}]Value{"a": mkStruct("ModuleNode", "InDegree", int64(3)), "b": mkStruct("ModuleNode", "InDegree", int64(11))}}
	cdd := mkStruct("CircularDependencyDetector", "graph", mkStruct("DependencyGraph", "Nodes", nodes))
	for _, c := range []struct {
		size int64
		mods []Value
		want string
	}{{2, []Value{"a"}, "low"}, {2, []Value{"a", "b"}, "critical"}, {6, []Value{"a", "zz"}, "high"}, {3, []Value{"a"}, "medium"}, {10, nil, "critical"}} {
		v, err := in.call1(p, fd, cdd, mkStruct("CircularDependency", "Size", c.size, "Modules", mkSlice(c.mods...)))
		if err != nil {
			t.Fatal(err)
		}
		if v != c.want {
			t.Errorf("assess(%d,%v) = %v want %v", c.size, c.mods, v, c.want)
		}
	}
}

func TestEvalCheck(t *testing.T) {
	testRepo(t)
	p := loadPkg("cmd/pyscn")
	in := newInterp(p)
	fd := findFunc(p, "check.go", "CheckCommand", "determineEnabledAnalyses")
	c := mkStruct("CheckCommand", "selectAnalyses", mkSlice("Circular", "complexity"), "skipClones", false)
	vs, err := in.CallFunc(p, fd, c)
	if err != nil {
		t.Fatal(err)
	}
	want := []Value{false, true, true, false, true}
	for i := range want {
		if vs[i] != want[i] {
			t.Errorf("determineEnabledAnalyses[%d] = %v", i, vs[i])
		}
	}
	svc := loadPkg("service")
	fk := findFunc(svc, "complexity_service.go", "ComplexityServiceImpl", "getComplexityDistributionKey")
	v, err := in.call1(svc, fk, mkStruct("ComplexityServiceImpl"), int64(7))
	if err != nil || v != "6-10" {
		t.Errorf("distribution key: %v %v", v, err)
	}
}
