package main

import (
	"fmt"
	"go/ast"
	"go/constant"
	"go/token"
	"strings"
)

// gen_ted: constants of the tree-edit-distance code (internal/analyzer/apted*.go,
// framework_patterns.go, the cost-model switch of clone_detector.go) -> Gen/TedConst.v.

func tedStr(s string) string { return "\"" + strings.ReplaceAll(s, "\"", "\"\"") + "\"%string" }

func tedStrList(xs []string) string {
	ys := make([]string, len(xs))
	for i, x := range xs {
		ys[i] = tedStr(x)
	}
	return "[" + strings.Join(ys, "; ") + "]"
}

func litQ(p *pkgInfo, e ast.Expr) (string, bool) {
	if tv, ok := p.info.Types[e]; ok && tv.Value != nil {
		return coqQ(tv.Value)
	}
	if bl, ok := e.(*ast.BasicLit); ok && (bl.Kind == token.FLOAT || bl.Kind == token.INT) {
		return coqQ(constant.MakeFromLiteral(bl.Value, bl.Kind, 0))
	}
	return "", false
}

func litZ(p *pkgInfo, e ast.Expr) (string, bool) {
	if bl, ok := e.(*ast.BasicLit); ok && bl.Kind == token.INT {
		return coqZ(constant.MakeFromLiteral(bl.Value, bl.Kind, 0))
	}
	return "", false
}

// stringSlices returns, per assigned variable name, the []string / [][2]string literals of a function body.
func stringSlices(fd *ast.FuncDecl) map[string][][]string {
	res := map[string][][]string{}
	ast.Inspect(fd, func(n ast.Node) bool {
		as, ok := n.(*ast.AssignStmt)
		if !ok || len(as.Lhs) != 1 || len(as.Rhs) != 1 {
			return true
		}
		id, ok := as.Lhs[0].(*ast.Ident)
		cl, ok2 := as.Rhs[0].(*ast.CompositeLit)
		if !ok || !ok2 {
			return true
		}
		var rows [][]string
		for _, el := range cl.Elts {
			switch v := el.(type) {
			case *ast.BasicLit:
				if v.Kind == token.STRING {
					rows = append(rows, []string{constant.StringVal(constant.MakeFromLiteral(v.Value, v.Kind, 0))})
				}
			case *ast.CompositeLit:
				var row []string
				for _, e2 := range v.Elts {
					if b, ok := e2.(*ast.BasicLit); ok && b.Kind == token.STRING {
						row = append(row, constant.StringVal(constant.MakeFromLiteral(b.Value, b.Kind, 0)))
					}
				}
				rows = append(rows, row)
			}
		}
		res[id.Name] = rows
		return true
	})
	return res
}

func flat(rows [][]string) []string {
	var out []string
	for _, r := range rows {
		out = append(out, r...)
	}
	return out
}

// returnLits: the expressions of all return statements (single result), in source order.
func returnExprs(fd *ast.FuncDecl) []ast.Expr {
	var out []ast.Expr
	ast.Inspect(fd, func(n ast.Node) bool {
		if r, ok := n.(*ast.ReturnStmt); ok && len(r.Results) == 1 {
			out = append(out, r.Results[0])
		}
		return true
	})
	return out
}

// stringArgs: string literal arguments of calls pkg.fn(_, "lit") inside a function, in order.
func stringArgs(fd *ast.FuncDecl, fn string) []string {
	var out []string
	ast.Inspect(fd, func(n ast.Node) bool {
		c, ok := n.(*ast.CallExpr)
		if !ok {
			return true
		}
		sel, ok := c.Fun.(*ast.SelectorExpr)
		if !ok || sel.Sel.Name != fn || len(c.Args) != 2 {
			return true
		}
		if b, ok := c.Args[1].(*ast.BasicLit); ok && b.Kind == token.STRING {
			out = append(out, constant.StringVal(constant.MakeFromLiteral(b.Value, b.Kind, 0)))
		}
		return true
	})
	return out
}

// intComparisons: integer literals on the right of `>` comparisons in a function, in order.
func gtIntLits(fd *ast.FuncDecl) []string {
	var out []string
	ast.Inspect(fd, func(n ast.Node) bool {
		b, ok := n.(*ast.BinaryExpr)
		if !ok || b.Op != token.GTR {
			return true
		}
		if l, ok := b.Y.(*ast.BasicLit); ok && l.Kind == token.INT {
			if s, ok := coqZ(constant.MakeFromLiteral(l.Value, l.Kind, 0)); ok {
				out = append(out, s)
			}
		}
		return true
	})
	return out
}

func init() {
	generators = append(generators, func() {
		p := loadPkg("internal/analyzer")
		if p == nil {
			return
		}
		var b strings.Builder
		need := func(fd *ast.FuncDecl, what string) bool {
			if fd == nil {
				fail("ted: function not found: %s", what)
				return false
			}
			return true
		}

		// --- exact-algorithm size limit: ComputeDistance `size1 > 500 || size2 > 500`
		if fd := findFunc(p, "apted.go", "APTEDAnalyzer", "ComputeDistance"); need(fd, "ComputeDistance") {
			l := gtIntLits(fd)
			if len(l) != 2 || l[0] != l[1] {
				fail("ted: ComputeDistance: expected `size1 > N || size2 > N`, found %v", l)
			} else {
				fmt.Fprintf(&b, "Definition ted_exact_limit : Z := %s.\n", l[0])
			}
		}
		// --- default cost model
		for _, f := range []string{"Insert", "Delete"} {
			if fd := findFunc(p, "apted_cost.go", "DefaultCostModel", f); need(fd, "DefaultCostModel."+f) {
				r := returnExprs(fd)
				if len(r) != 1 {
					fail("ted: DefaultCostModel.%s: expected one return", f)
					continue
				}
				if q, ok := litQ(p, r[0]); ok {
					fmt.Fprintf(&b, "Definition ted_default_%s : Q := %s.\n", strings.ToLower(f), q)
				} else {
					fail("ted: DefaultCostModel.%s: non-constant return", f)
				}
			}
		}
		if fd := findFunc(p, "apted_cost.go", "DefaultCostModel", "Rename"); need(fd, "DefaultCostModel.Rename") {
			r := returnExprs(fd)
			if len(r) != 3 {
				fail("ted: DefaultCostModel.Rename: expected 3 returns (nil, same label, different), found %d", len(r))
			} else {
				q1, ok1 := litQ(p, r[1])
				q2, ok2 := litQ(p, r[2])
				if ok1 && ok2 {
					fmt.Fprintf(&b, "Definition ted_default_rename_same : Q := %s.\nDefinition ted_default_rename_diff : Q := %s.\n", q1, q2)
				} else {
					fail("ted: DefaultCostModel.Rename: non-constant returns")
				}
			}
		}
		// --- python cost model: constructor fields
		if fd := findFunc(p, "apted_cost.go", "", "NewPythonCostModel"); need(fd, "NewPythonCostModel") {
			found := 0
			ast.Inspect(fd, func(n ast.Node) bool {
				kv, ok := n.(*ast.KeyValueExpr)
				if !ok {
					return true
				}
				k, _ := kv.Key.(*ast.Ident)
				if k == nil {
					return true
				}
				switch k.Name {
				case "BaseInsertCost", "BaseDeleteCost", "BaseRenameCost", "BoilerplateMultiplier":
					if q, ok := litQ(p, kv.Value); ok {
						fmt.Fprintf(&b, "Definition ted_py_%s : Q := %s.\n", k.Name, q)
						found++
					}
				case "IgnoreLiterals", "IgnoreIdentifiers", "ReduceBoilerplateWeight":
					if id, ok := kv.Value.(*ast.Ident); ok && (id.Name == "true" || id.Name == "false") {
						fmt.Fprintf(&b, "Definition ted_py_%s : bool := %s.\n", k.Name, id.Name)
						found++
					}
				}
				return true
			})
			if found != 7 {
				fail("ted: NewPythonCostModel: expected 7 constant fields, found %d", found)
			}
		}
		// the boilerplate constructor used by the clone detector keeps the base costs and replaces a non-positive multiplier
		if fd := findFunc(p, "apted_cost.go", "", "NewPythonCostModelWithBoilerplateConfig"); need(fd, "NewPythonCostModelWithBoilerplateConfig") {
			ok := 0
			ast.Inspect(fd, func(n ast.Node) bool {
				if kv, isKV := n.(*ast.KeyValueExpr); isKV {
					if k, _ := kv.Key.(*ast.Ident); k != nil && strings.HasPrefix(k.Name, "Base") {
						if q, isQ := litQ(p, kv.Value); isQ && q == "((1) # 1)%Q" {
							ok++
						}
					}
				}
				return true
			})
			if ok != 3 {
				fail("ted: NewPythonCostModelWithBoilerplateConfig: base costs are no longer 1.0")
			}
		}
		// --- node type multipliers, in the order of the return statements
		if fd := findFunc(p, "apted_cost.go", "PythonCostModel", "getNodeTypeMultiplier"); need(fd, "getNodeTypeMultiplier") {
			r := returnExprs(fd)
			names := []string{"", "structural", "controlflow", "expression", "literal_ignored", "identifier_ignored", "other"}
			if len(r) != 7 {
				fail("ted: getNodeTypeMultiplier: expected 7 returns, found %d", len(r))
			} else {
				if s := src(p, r[0]); s != "c.BoilerplateMultiplier" {
					fail("ted: getNodeTypeMultiplier: first return is %s", s)
				}
				for i := 1; i < 7; i++ {
					if q, ok := litQ(p, r[i]); ok {
						fmt.Fprintf(&b, "Definition ted_py_mult_%s : Q := %s.\n", names[i], q)
					} else {
						fail("ted: getNodeTypeMultiplier: return %d not constant", i)
					}
				}
			}
		}
		for _, it := range [][2]string{{"isStructuralNode", "structuralNodes"}, {"isControlFlowNode", "controlFlowNodes"}, {"isExpressionNode", "expressionNodes"}} {
			if fd := findFunc(p, "apted_cost.go", "PythonCostModel", it[0]); need(fd, it[0]) {
				ss := stringSlices(fd)[it[1]]
				if len(ss) == 0 {
					fail("ted: %s: list %s not found", it[0], it[1])
				}
				fmt.Fprintf(&b, "Definition ted_py_%s : list string := %s.\n", it[1], tedStrList(flat(ss)))
			}
		}
		for _, it := range [][2]string{{"isLiteralNode", "literal_prefix"}, {"isIdentifierNode", "identifier_prefix"}} {
			if fd := findFunc(p, "apted_cost.go", "PythonCostModel", it[0]); need(fd, it[0]) {
				a := stringArgs(fd, "HasPrefix")
				if len(a) != 1 {
					fail("ted: %s: expected one HasPrefix", it[0])
				} else {
					fmt.Fprintf(&b, "Definition ted_py_%s : string := %s.\n", it[1], tedStr(a[0]))
				}
			}
		}
		if fd := findFunc(p, "apted_cost.go", "PythonCostModel", "calculateLabelSimilarity"); need(fd, "calculateLabelSimilarity") {
			r := returnExprs(fd)
			names := []string{"toplevel_other_name", "same_base", "related", "same_category", "none"}
			if len(r) != 5 {
				fail("ted: calculateLabelSimilarity: expected 5 returns, found %d", len(r))
			} else {
				for i, e := range r {
					if q, ok := litQ(p, e); ok {
						fmt.Fprintf(&b, "Definition ted_py_sim_%s : Q := %s.\n", names[i], q)
					} else {
						fail("ted: calculateLabelSimilarity: return %d not constant", i)
					}
				}
			}
		}
		if fd := findFunc(p, "apted_cost.go", "PythonCostModel", "areRelatedNodeTypes"); need(fd, "areRelatedNodeTypes") {
			rows := stringSlices(fd)["relatedPairs"]
			var items []string
			for _, r := range rows {
				if len(r) != 2 {
					fail("ted: relatedPairs: malformed row")
					continue
				}
				items = append(items, "("+tedStr(r[0])+", "+tedStr(r[1])+")")
			}
			if len(items) == 0 {
				fail("ted: relatedPairs not found")
			}
			fmt.Fprintf(&b, "Definition ted_py_relatedPairs : list (string * string) := [%s].\n", strings.Join(items, "; "))
		}
		if fd := findFunc(p, "apted_cost.go", "PythonCostModel", "isTopLevelDefinition"); need(fd, "isTopLevelDefinition") {
			var names []string
			ast.Inspect(fd, func(n ast.Node) bool {
				if be, ok := n.(*ast.BinaryExpr); ok && be.Op == token.EQL {
					if bl, ok := be.Y.(*ast.BasicLit); ok && bl.Kind == token.STRING {
						names = append(names, constant.StringVal(constant.MakeFromLiteral(bl.Value, bl.Kind, 0)))
					}
				}
				return true
			})
			if len(names) == 0 {
				fail("ted: isTopLevelDefinition: no names")
			}
			fmt.Fprintf(&b, "Definition ted_py_toplevel : list string := %s.\n", tedStrList(names))
		}
		// --- boilerplate labels
		if fd := findFunc(p, "framework_patterns.go", "", "IsBoilerplateLabel"); need(fd, "IsBoilerplateLabel") {
			ss := stringSlices(fd)
			fmt.Fprintf(&b, "Definition ted_bp_prefixes : list string := %s.\n", tedStrList(stringArgs(fd, "HasPrefix")))
			fmt.Fprintf(&b, "Definition ted_bp_lower_contains : list string := %s.\n", tedStrList(flat(ss["typeHintPatterns"])))
			fmt.Fprintf(&b, "Definition ted_bp_contains : list string := %s.\n", tedStrList(flat(ss["fieldPatterns"])))
			if len(stringArgs(fd, "HasPrefix")) == 0 || len(ss["typeHintPatterns"]) == 0 || len(ss["fieldPatterns"]) == 0 {
				fail("ted: IsBoilerplateLabel: pattern lists not found")
			}
		}
		// --- weights of the "weighted" model (clone_detector.go NewCloneDetector)
		if fd := findFunc(p, "clone_detector.go", "", "NewCloneDetector"); need(fd, "NewCloneDetector") {
			n := 0
			ast.Inspect(fd, func(nd ast.Node) bool {
				c, ok := nd.(*ast.CallExpr)
				if !ok {
					return true
				}
				if id, ok := c.Fun.(*ast.Ident); ok && id.Name == "NewWeightedCostModel" && len(c.Args) == 4 {
					for i, nm := range []string{"insert", "delete", "rename"} {
						if q, ok := litQ(p, c.Args[i]); ok {
							fmt.Fprintf(&b, "Definition ted_weighted_%s : Q := %s.\n", nm, q)
							n++
						}
					}
				}
				return true
			})
			if n != 3 {
				fail("ted: NewCloneDetector: NewWeightedCostModel(w,w,w,base) with constant weights not found")
			}
		}
		writeGen("TedConst.v", b.String())

		for _, f := range []string{"ComputeDistance", "apted", "computeForestDistance", "getPostOrderNodes",
			"postOrderTraversalWithDepthLimit", "computeInsertCostWithDepthLimit", "computeDeleteCostWithDepthLimit",
			"ComputeSimilarity", "computeDistanceOptimized"} {
			recordDigest(p, "apted.go", "APTEDAnalyzer", f)
		}
		for _, f := range []string{"postOrderTraversalRecursive", "computeLeftMostLeavesRecursive", "computeKeyRootsRecursive",
			"PrepareTreeForAPTED", "ComputeKeyRoots"} {
			recordDigest(p, "apted_tree.go", "", f)
		}
		recordDigest(p, "apted_tree.go", "TreeNode", "SizeWithDepthLimit")
		for _, f := range []string{"Insert", "Delete", "Rename", "getNodeTypeMultiplier", "calculateLabelSimilarity",
			"shouldIgnoreDifference", "extractBaseNodeType", "extractNameFromLabel", "areRelatedNodeTypes", "areSameCategory"} {
			recordDigest(p, "apted_cost.go", "PythonCostModel", f)
		}
		for _, f := range []string{"Insert", "Delete", "Rename"} {
			recordDigest(p, "apted_cost.go", "DefaultCostModel", f)
			recordDigest(p, "apted_cost.go", "WeightedCostModel", f)
		}
		recordDigest(p, "framework_patterns.go", "", "IsBoilerplateLabel")
	})
}
