package main

import (
	"fmt"
	"go/ast"
	"go/constant"
	"go/token"
	"math/big"
	"strings"
)

// gen_ted: constants of the tree-edit-distance code (internal/analyzer/apted*.go,
// framework_patterns.go, the cost-model switch of clone_detector.go) -> Gen/TedConst.v.

func tedStr(s string) string { return "\"" + strings.ReplaceAll(s, "\"", "\"\"") + "\"%string" }

func tedStrList(xs []string) string {
	ys := make([]string, len(xs))
	for i, x := range xs {
		ys[i] = tedStr(x)
	}
	return "[" + strings.Join(ys, "; ") + "]"
}

func litQ(p *pkgInfo, e ast.Expr) (string, bool) {
	if tv, ok := p.info.Types[e]; ok && tv.Value != nil {
		return coqQ(tv.Value)
	}
	if bl, ok := e.(*ast.BasicLit); ok && (bl.Kind == token.FLOAT || bl.Kind == token.INT) {
		return coqQ(constant.MakeFromLiteral(bl.Value, bl.Kind, 0))
	}
	return "", false
}

func litZ(p *pkgInfo, e ast.Expr) (string, bool) {
	if bl, ok := e.(*ast.BasicLit); ok && bl.Kind == token.INT {
		return coqZ(constant.MakeFromLiteral(bl.Value, bl.Kind, 0))
	}
	return "", false
}

// stringSlices returns, per assigned variable name, the []string / [][2]string literals of a function body.
func stringSlices(fd *ast.FuncDecl) map[string][][]string {
	res := map[string][][]string{}
	ast.Inspect(fd, func(n ast.Node) bool {
		as, ok := n.(*ast.AssignStmt)
		if !ok || len(as.Lhs) != 1 || len(as.Rhs) != 1 {
			return true
		}
		id, ok := as.Lhs[0].(*ast.Ident)
		cl, ok2 := as.Rhs[0].(*ast.CompositeLit)
		if !ok || !ok2 {
			return true
		}
		var rows [][]string
		for _, el := range cl.Elts {
			switch v := el.(type) {
			case *ast.BasicLit:
				if v.Kind == token.STRING {
					rows = append(rows, []string{constant.StringVal(constant.MakeFromLiteral(v.Value, v.Kind, 0))})
				}
			case *ast.CompositeLit:
				var row []string
				for _, e2 := range v.Elts {
					if b, ok := e2.(*ast.BasicLit); ok && b.Kind == token.STRING {
						row = append(row, constant.StringVal(constant.MakeFromLiteral(b.Value, b.Kind, 0)))
					}
				}
				rows = append(rows, row)
			}
		}
		res[id.Name] = rows
		return true
	})
	return res
}

func flat(rows [][]string) []string {
	var out []string
	for _, r := range rows {
		out = append(out, r...)
	}
	return out
}

// returnLits: the expressions of all return statements (single result), in source order.
func returnExprs(fd *ast.FuncDecl) []ast.Expr {
	var out []ast.Expr
	ast.Inspect(fd, func(n ast.Node) bool {
		if r, ok := n.(*ast.ReturnStmt); ok && len(r.Results) == 1 {
			out = append(out, r.Results[0])
		}
		return true
	})
	return out
}

// stringArgs: string literal arguments of calls pkg.fn(_, "lit") inside a function, in order.
func stringArgs(fd *ast.FuncDecl, fn string) []string {
	var out []string
	ast.Inspect(fd, func(n ast.Node) bool {
		c, ok := n.(*ast.CallExpr)
		if !ok {
			return true
		}
		sel, ok := c.Fun.(*ast.SelectorExpr)
		if !ok || sel.Sel.Name != fn || len(c.Args) != 2 {
			return true
		}
		if b, ok := c.Args[1].(*ast.BasicLit); ok && b.Kind == token.STRING {
			out = append(out, constant.StringVal(constant.MakeFromLiteral(b.Value, b.Kind, 0)))
		}
		return true
	})
	return out
}

// gtIntLits: the largest integer that does NOT satisfy each `x > N` / `x >= N` / `N < x` / `N <= x` comparison with an integer
// literal in a function, in order (`x > 500` and `x >= 501` both give 500): the size gate is read by its meaning, so that a
// moved boundary changes the generated limit (and breaks the lemma that pins it to the documented value) instead of stopping the translator.
func gtIntLits(fd *ast.FuncDecl) []string {
	var out []string
	ast.Inspect(fd, func(n ast.Node) bool {
		b, ok := n.(*ast.BinaryExpr)
		if !ok {
			return true
		}
		lit, strict := b.Y, true
		switch b.Op {
		case token.GTR:
		case token.GEQ:
			strict = false
		case token.LSS:
			lit = b.X
		case token.LEQ:
			lit, strict = b.X, false
		default:
			return true
		}
		if l, ok := lit.(*ast.BasicLit); ok && l.Kind == token.INT {
			v := constant.MakeFromLiteral(l.Value, l.Kind, 0)
			if !strict {
				v = constant.BinaryOp(v, token.SUB, constant.MakeInt64(1))
			}
			if s, ok := coqZ(v); ok {
				out = append(out, s)
			}
		}
		return true
	})
	return out
}

func init() {
	generators = append(generators, func() {
		p := loadPkg("internal/analyzer")
		if p == nil {
			return
		}
		var b strings.Builder
		need := func(fd *ast.FuncDecl, what string) bool {
			if fd == nil {
				fail("ted: function not found: %s", what)
				return false
			}
			return true
		}

		// --- exact-algorithm size limit: ComputeDistance `size1 > 500 || size2 > 500`
		if fd := findFunc(p, "apted.go", "APTEDAnalyzer", "ComputeDistance"); need(fd, "ComputeDistance") {
			l := gtIntLits(fd)
			if len(l) != 2 || l[0] != l[1] {
				fail("ted: ComputeDistance: expected `size1 > N || size2 > N`, found %v", l)
			} else {
				fmt.Fprintf(&b, "Definition ted_exact_limit : Z := %s.\n", l[0])
			}
		}
		// --- default cost model: evaluated on nodes with equal / different labels
		{
			in := newInterp(p)
			node := func(l string) *Struct { return mkStruct("TreeNode", "Label", l) }
			recvV := mkStruct("DefaultCostModel")
			evalF := func(fn string, args ...Value) (string, bool) {
				fd := findFunc(p, "apted_cost.go", "DefaultCostModel", fn)
				if !need(fd, "DefaultCostModel."+fn) {
					return "", false
				}
				v, err := in.call1(p, fd, recvV, args...)
				x, ok := v.(float64)
				if err != nil || !ok {
					fail("ted: DefaultCostModel.%s cannot be evaluated: %v (%T)", fn, err, v)
					return "", false
				}
				// the same for any label: the model has one constant
				for _, alt := range [][]Value{{node("Zzz"), node("Zzz")}, {node("For"), node("Name(x)")}} {
					if fn != "Rename" {
						if w, err := in.call1(p, fd, recvV, alt[0]); err != nil || w != v {
							fail("ted: DefaultCostModel.%s depends on the node", fn)
							return "", false
						}
					}
				}
				return floatQ(x)
			}
			if q, ok := evalF("Insert", node("A")); ok {
				fmt.Fprintf(&b, "Definition ted_default_insert : Q := %s.\n", q)
			}
			if q, ok := evalF("Delete", node("A")); ok {
				fmt.Fprintf(&b, "Definition ted_default_delete : Q := %s.\n", q)
			}
			q1, ok1 := evalF("Rename", node("A"), node("A"))
			q2, ok2 := evalF("Rename", node("A"), node("B"))
			q3, ok3 := evalF("Rename", node("Name(x)"), node("Name(y)"))
			if ok1 && ok2 && ok3 {
				if q2 != q3 {
					fail("ted: DefaultCostModel.Rename of different labels is not a single constant")
				}
				fmt.Fprintf(&b, "Definition ted_default_rename_same : Q := %s.\nDefinition ted_default_rename_diff : Q := %s.\n", q1, q2)
			}
		}
		// --- python cost model: constructor fields
		if fd := findFunc(p, "apted_cost.go", "", "NewPythonCostModel"); need(fd, "NewPythonCostModel") {
			found := 0
			ast.Inspect(fd, func(n ast.Node) bool {
				kv, ok := n.(*ast.KeyValueExpr)
				if !ok {
					return true
				}
				k, _ := kv.Key.(*ast.Ident)
				if k == nil {
					return true
				}
				switch k.Name {
				case "BaseInsertCost", "BaseDeleteCost", "BaseRenameCost", "BoilerplateMultiplier":
					if q, ok := litQ(p, kv.Value); ok {
						fmt.Fprintf(&b, "Definition ted_py_%s : Q := %s.\n", k.Name, q)
						found++
					}
				case "IgnoreLiterals", "IgnoreIdentifiers", "ReduceBoilerplateWeight":
					if id, ok := kv.Value.(*ast.Ident); ok && (id.Name == "true" || id.Name == "false") {
						fmt.Fprintf(&b, "Definition ted_py_%s : bool := %s.\n", k.Name, id.Name)
						found++
					}
				}
				return true
			})
			if found != 7 {
				fail("ted: NewPythonCostModel: expected 7 constant fields, found %d", found)
			}
		}
		// the boilerplate constructor used by the clone detector keeps the base costs and replaces a non-positive multiplier
		if fd := findFunc(p, "apted_cost.go", "", "NewPythonCostModelWithBoilerplateConfig"); need(fd, "NewPythonCostModelWithBoilerplateConfig") {
			ok := 0
			ast.Inspect(fd, func(n ast.Node) bool {
				if kv, isKV := n.(*ast.KeyValueExpr); isKV {
					if k, _ := kv.Key.(*ast.Ident); k != nil && strings.HasPrefix(k.Name, "Base") {
						if q, isQ := litQ(p, kv.Value); isQ && q == "((1) # 1)%Q" {
							ok++
						}
					}
				}
				return true
			})
			if ok != 3 {
				fail("ted: NewPythonCostModelWithBoilerplateConfig: base costs are no longer 1.0")
			}
		}
		// --- the label predicates, multipliers and similarity levels of the Python cost model: read by evaluation
		var tb strings.Builder
		tedDecisions(&b, &tb, p)
		// --- boilerplate labels
		if fd := findFunc(p, "framework_patterns.go", "", "IsBoilerplateLabel"); need(fd, "IsBoilerplateLabel") {
			ss := stringSlices(fd)
			fmt.Fprintf(&b, "Definition ted_bp_prefixes : list string := %s.\n", tedStrList(stringArgs(fd, "HasPrefix")))
			fmt.Fprintf(&b, "Definition ted_bp_lower_contains : list string := %s.\n", tedStrList(flat(ss["typeHintPatterns"])))
			fmt.Fprintf(&b, "Definition ted_bp_contains : list string := %s.\n", tedStrList(flat(ss["fieldPatterns"])))
			if len(stringArgs(fd, "HasPrefix")) == 0 || len(ss["typeHintPatterns"]) == 0 || len(ss["fieldPatterns"]) == 0 {
				fail("ted: IsBoilerplateLabel: pattern lists not found")
			}
		}
		// --- weights of the "weighted" model (clone_detector.go NewCloneDetector)
		if fd := findFunc(p, "clone_detector.go", "", "NewCloneDetector"); need(fd, "NewCloneDetector") {
			n := 0
			ast.Inspect(fd, func(nd ast.Node) bool {
				c, ok := nd.(*ast.CallExpr)
				if !ok {
					return true
				}
				if id, ok := c.Fun.(*ast.Ident); ok && id.Name == "NewWeightedCostModel" && len(c.Args) == 4 {
					for i, nm := range []string{"insert", "delete", "rename"} {
						if q, ok := litQ(p, c.Args[i]); ok {
							fmt.Fprintf(&b, "Definition ted_weighted_%s : Q := %s.\n", nm, q)
							n++
						}
					}
				}
				return true
			})
			if n != 3 {
				fail("ted: NewCloneDetector: NewWeightedCostModel(w,w,w,base) with constant weights not found")
			}
		}
		writeGen("TedConst.v", b.String())
		writeGen("TedTables.v", tb.String())

		for _, f := range []string{"ComputeDistance", "apted", "computeForestDistance", "getPostOrderNodes",
			"postOrderTraversalWithDepthLimit", "computeInsertCostWithDepthLimit", "computeDeleteCostWithDepthLimit",
			"ComputeSimilarity", "computeDistanceOptimized"} {
			recordDigest(p, "apted.go", "APTEDAnalyzer", f)
		}
		for _, f := range []string{"postOrderTraversalRecursive", "computeLeftMostLeavesRecursive", "computeKeyRootsRecursive",
			"PrepareTreeForAPTED", "ComputeKeyRoots"} {
			recordDigest(p, "apted_tree.go", "", f)
		}
		recordDigest(p, "apted_tree.go", "TreeNode", "SizeWithDepthLimit")
		for _, f := range []string{"Insert", "Delete", "Rename", "getNodeTypeMultiplier", "calculateLabelSimilarity",
			"shouldIgnoreDifference", "extractBaseNodeType", "extractNameFromLabel", "areRelatedNodeTypes", "areSameCategory"} {
			recordDigest(p, "apted_cost.go", "PythonCostModel", f)
		}
		for _, f := range []string{"Insert", "Delete", "Rename"} {
			recordDigest(p, "apted_cost.go", "DefaultCostModel", f)
			recordDigest(p, "apted_cost.go", "WeightedCostModel", f)
		}
		recordDigest(p, "framework_patterns.go", "", "IsBoilerplateLabel")
	})
}

// ---------------------------------------------------------------------------------------------------
// label predicates, multipliers, similarity levels: read by evaluation (goeval.go)
// ---------------------------------------------------------------------------------------------------

// fileStrings: the distinct string literals of a source file, in order of first occurrence.
func fileStrings(p *pkgInfo, file string) []string {
	f := p.files[file]
	if f == nil {
		return nil
	}
	seen := map[string]bool{}
	var out []string
	ast.Inspect(f, func(n ast.Node) bool {
		if _, ok := n.(*ast.ImportSpec); ok {
			return false
		}
		if bl, ok := n.(*ast.BasicLit); ok && bl.Kind == token.STRING {
			s := constant.StringVal(constant.MakeFromLiteral(bl.Value, bl.Kind, 0))
			if !seen[s] {
				seen[s] = true
				out = append(out, s)
			}
		}
		return true
	})
	return out
}

// floatQ renders a float64 exactly as a Coq Q literal.
func floatQ(f float64) (string, bool) {
	r := new(big.Rat)
	if r.SetFloat64(f) == nil {
		return "", false
	}
	return fmt.Sprintf("((%s) # %s)%%Q", r.Num().String(), r.Denom().String()), true
}

func addDistinct(xs []string, ys ...string) []string {
	seen := map[string]bool{}
	for _, x := range xs {
		seen[x] = true
	}
	for _, y := range ys {
		if !seen[y] {
			seen[y] = true
			xs = append(xs, y)
		}
	}
	return xs
}

// strangers of a label: one letter more, one letter less, other case.
func labelStrangers(m string) []string {
	out := []string{m + "X", strings.ToLower(m)}
	if len(m) > 1 {
		out = append(out, m[:len(m)-1])
	}
	return out
}

func tedDecisions(b, tb *strings.Builder, p *pkgInfo) {
	const file, recv = "apted_cost.go", "PythonCostModel"
	in := newInterp(p)
	model := func(ignL, ignI, reduce bool, bp float64) *Struct {
		return mkStruct(recv, "BaseInsertCost", 1.0, "BaseDeleteCost", 1.0, "BaseRenameCost", 1.0,
			"IgnoreLiterals", ignL, "IgnoreIdentifiers", ignI, "ReduceBoilerplateWeight", reduce, "BoilerplateMultiplier", bp)
	}
	plain := model(false, false, false, 0.5)
	universe := fileStrings(p, file)
	if len(universe) == 0 {
		fail("ted: no string literals found in %s", file)
		return
	}
	bad := false
	pred1 := func(fn string) func(string) bool {
		fd := findFunc(p, file, recv, fn)
		if fd == nil {
			fail("ted: function not found: %s", fn)
			bad = true
			return func(string) bool { return false }
		}
		failed := false
		return func(s string) bool {
			v, err := asBool(in.call1(p, fd, plain, s))
			if err != nil && !failed {
				fail("ted: %s cannot be evaluated: %v", fn, err)
				failed, bad = true, true
			}
			return v
		}
	}
	pred2 := func(fn string) func(string, string) bool {
		fd := findFunc(p, file, recv, fn)
		if fd == nil {
			fail("ted: function not found: %s", fn)
			bad = true
			return func(string, string) bool { return false }
		}
		failed := false
		return func(s, t string) bool {
			v, err := asBool(in.call1(p, fd, plain, s, t))
			if err != nil && !failed {
				fail("ted: %s cannot be evaluated: %v", fn, err)
				failed, bad = true, true
			}
			return v
		}
	}
	table1 := func(name string, f func(string) bool, labels []string) {
		var rows []string
		for _, l := range labels {
			rows = append(rows, fmt.Sprintf("(%s, %s)", tedStr(l), coqBool(f(l))))
		}
		emitTable(tb, name, "string * bool", rows)
	}
	table2 := func(name string, f func(string, string) bool, labels []string) {
		var rows []string
		for _, l1 := range labels {
			for _, l2 := range labels {
				rows = append(rows, fmt.Sprintf("((%s, %s), %s)", tedStr(l1), tedStr(l2), coqBool(f(l1, l2))))
			}
		}
		emitTable(tb, name, "(string * string) * bool", rows)
	}
	general := []string{"", "Zzz", "Pass", "Expr", "Assign"}

	// ---- prefix lists: isStructuralNode / isControlFlowNode / isExpressionNode -------------------
	// members = the literals of the file the predicate accepts, minus those that extend another member
	// (the model tests strings.HasPrefix against each member; the table below checks that reading)
	cats := map[string][]string{}
	for _, it := range [][2]string{{"isStructuralNode", "structuralNodes"}, {"isControlFlowNode", "controlFlowNodes"}, {"isExpressionNode", "expressionNodes"}} {
		f := pred1(it[0])
		var acc []string
		for _, u := range universe {
			if u != "" && f(u) {
				acc = append(acc, u)
			}
		}
		var members []string
		for _, m := range acc {
			ext := false
			for _, o := range acc {
				if o != m && strings.HasPrefix(m, o) {
					ext = true
				}
			}
			if !ext {
				members = append(members, m)
			}
		}
		if len(members) == 0 && !bad {
			fail("ted: %s accepts none of the string literals of %s", it[0], file)
		}
		cats[it[1]] = members
		fmt.Fprintf(b, "Definition ted_py_%s : list string := %s.\n", it[1], tedStrList(members))
		labels := append([]string{}, general...)
		labels = addDistinct(labels, universe...)
		for _, m := range acc {
			labels = addDistinct(labels, labelStrangers(m)...)
			labels = addDistinct(labels, m+"(x)")
		}
		table1(it[0]+"_table", f, labels)
	}

	// ---- prefixes: isLiteralNode / isIdentifierNode ------------------------------------------------
	prefixes := map[string]string{}
	for _, it := range [][2]string{{"isLiteralNode", "literal_prefix"}, {"isIdentifierNode", "identifier_prefix"}} {
		f := pred1(it[0])
		pre := ""
		found := false
		for _, u := range universe {
			if u == "" || !f(u) {
				continue
			}
			for k := 1; k <= len(u); k++ {
				if f(u[:k]) {
					pre, found = u[:k], true
					break
				}
			}
			break
		}
		if !found && !bad {
			fail("ted: %s accepts none of the string literals of %s", it[0], file)
		}
		prefixes[it[1]] = pre
		fmt.Fprintf(b, "Definition ted_py_%s : string := %s.\n", it[1], tedStr(pre))
		labels := addDistinct(append([]string{}, general...), pre, pre+"1)", pre+"x)", "x"+pre)
		labels = addDistinct(labels, labelStrangers(pre)...)
		labels = addDistinct(labels, universe...)
		table1(it[0]+"_table", f, labels)
	}

	// ---- isTopLevelDefinition (exact match) -----------------------------------------------------------
	var toplevel []string
	{
		f := pred1("isTopLevelDefinition")
		for _, u := range universe {
			if f(u) {
				toplevel = append(toplevel, u)
			}
		}
		if len(toplevel) == 0 && !bad {
			fail("ted: isTopLevelDefinition accepts none of the string literals of %s", file)
		}
		fmt.Fprintf(b, "Definition ted_py_toplevel : list string := %s.\n", tedStrList(toplevel))
		labels := addDistinct(append([]string{}, general...), universe...)
		for _, m := range toplevel {
			labels = addDistinct(labels, labelStrangers(m)...)
			labels = addDistinct(labels, m+"(x)")
		}
		table1("isTopLevelDefinition_table", f, labels)
	}

	// ---- IsBoilerplateLabel (framework_patterns.go): the pattern lists stay read from the source, the table checks the reading
	if fd := findFunc(p, "framework_patterns.go", "", "IsBoilerplateLabel"); fd != nil {
		f := func(sv string) bool {
			v, err := asBool(in.call1(p, fd, nil, sv))
			if err != nil && !bad {
				fail("ted: IsBoilerplateLabel cannot be evaluated: %v", err)
				bad = true
			}
			return v
		}
		labels := addDistinct(append([]string{}, general...), universe...)
		for _, u := range fileStrings(p, "framework_patterns.go") {
			labels = addDistinct(labels, u, "x"+u+"y", strings.ToUpper(u), u+"x)")
			labels = addDistinct(labels, labelStrangers(u)...)
		}
		table1("IsBoilerplateLabel_table", f, labels)
	}

	// ---- areRelatedNodeTypes ---------------------------------------------------------------------------
	var relLabels []string
	{
		f := pred2("areRelatedNodeTypes")
		var items []string
		for i, u := range universe {
			for j, w := range universe {
				if j <= i {
					continue
				}
				if f(u, w) || f(w, u) {
					items = append(items, "("+tedStr(u)+", "+tedStr(w)+")")
					relLabels = addDistinct(relLabels, u, w)
				}
			}
			if f(u, u) {
				items = append(items, "("+tedStr(u)+", "+tedStr(u)+")")
				relLabels = addDistinct(relLabels, u)
			}
		}
		if len(items) == 0 && !bad {
			fail("ted: areRelatedNodeTypes relates none of the string literals of %s", file)
		}
		fmt.Fprintf(b, "Definition ted_py_relatedPairs : list (string * string) := [%s].\n", strings.Join(items, "; "))
		labels := addDistinct(append([]string{}, general...), relLabels...)
		for _, m := range relLabels {
			labels = addDistinct(labels, m+"X")
		}
		labels = addDistinct(labels, toplevel...)
		table2("areRelatedNodeTypes_table", f, labels)
	}

	// ---- areSameCategory -------------------------------------------------------------------------------
	var catLabels []string
	{
		f := pred2("areSameCategory")
		catLabels = append(catLabels, general[:3]...)
		for _, k := range []string{"structuralNodes", "controlFlowNodes", "expressionNodes"} {
			ms := cats[k]
			for i, m := range ms {
				if i < 3 || i == len(ms)-1 {
					catLabels = addDistinct(catLabels, m)
				}
			}
			if len(ms) > 0 {
				catLabels = addDistinct(catLabels, ms[0]+"X", strings.ToLower(ms[0]))
			}
		}
		catLabels = addDistinct(catLabels, prefixes["literal_prefix"]+"1)", prefixes["identifier_prefix"]+"x)")
		table2("areSameCategory_table", f, catLabels)
	}

	// ---- getNodeTypeMultiplier ---------------------------------------------------------------------------
	if fd := findFunc(p, file, recv, "getNodeTypeMultiplier"); fd == nil {
		fail("ted: function not found: getNodeTypeMultiplier")
	} else {
		mult := func(c *Struct, label string) (float64, bool) {
			v, err := in.call1(p, fd, c, label)
			x, ok := v.(float64)
			if err != nil || !ok {
				if !bad {
					fail("ted: getNodeTypeMultiplier cannot be evaluated: %v (%T)", err, v)
					bad = true
				}
				return 0, false
			}
			return x, true
		}
		isS, isC, isE := pred1("isStructuralNode"), pred1("isControlFlowNode"), pred1("isExpressionNode")
		pick := func(ms []string, ok func(string) bool) string {
			for _, m := range ms {
				if ok(m) {
					return m
				}
			}
			return ""
		}
		reps := []struct{ name, label string }{
			{"structural", pick(cats["structuralNodes"], func(string) bool { return true })},
			{"controlflow", pick(cats["controlFlowNodes"], func(s string) bool { return !isS(s) })},
			{"expression", pick(cats["expressionNodes"], func(s string) bool { return !isS(s) && !isC(s) })},
			{"literal_ignored", prefixes["literal_prefix"] + "1)"},
			{"identifier_ignored", prefixes["identifier_prefix"] + "x)"},
			{"other", "Zzz"},
		}
		all := model(true, true, false, 0.5)
		for _, r := range reps {
			if r.label == "" || (r.name != "other" && r.label == "Zzz") {
				fail("ted: getNodeTypeMultiplier: no representative label for %s", r.name)
				continue
			}
			if r.name == "literal_ignored" || r.name == "identifier_ignored" {
				if isS(r.label) || isC(r.label) || isE(r.label) {
					fail("ted: getNodeTypeMultiplier: %s label %q also falls in a node category", r.name, r.label)
					continue
				}
			}
			if x, ok := mult(all, r.label); ok {
				q, _ := floatQ(x)
				fmt.Fprintf(b, "Definition ted_py_mult_%s : Q := %s.  (* getNodeTypeMultiplier(%q) *)\n", r.name, q, r.label)
			}
		}
		// decision table: ((IgnoreLiterals, IgnoreIdentifiers, ReduceBoilerplateWeight), label) -> multiplier, with BoilerplateMultiplier = 1/8
		labels := addDistinct(append([]string{}, general...), catLabels...)
		labels = addDistinct(labels, "Decorator", "AnnAssign", "AnnAssign(x)", "Call(Field()", "Name(field()", "Constant(generic_type)", "Name(TYPE_PARAMETER)", "Call(attr.ib()")
		var rows []string
		for _, fl := range [][3]bool{{false, false, false}, {true, true, false}, {false, false, true}, {true, false, true}, {false, true, true}, {true, true, true}} {
			c := model(fl[0], fl[1], fl[2], 0.125)
			for _, l := range labels {
				if x, ok := mult(c, l); ok {
					q, _ := floatQ(x)
					rows = append(rows, fmt.Sprintf("(((%s, %s, %s), %s), %s)", coqBool(fl[0]), coqBool(fl[1]), coqBool(fl[2]), tedStr(l), q))
				}
			}
		}
		emitTable(tb, "getNodeTypeMultiplier_table", "((bool * bool * bool) * string) * Q", rows)
	}

	// ---- calculateLabelSimilarity ------------------------------------------------------------------------
	if fd := findFunc(p, file, recv, "calculateLabelSimilarity"); fd == nil {
		fail("ted: function not found: calculateLabelSimilarity")
	} else {
		sim := func(l1, l2 string) (float64, bool) {
			v, err := in.call1(p, fd, plain, l1, l2)
			x, ok := v.(float64)
			if err != nil || !ok {
				if !bad {
					fail("ted: calculateLabelSimilarity cannot be evaluated: %v (%T)", err, v)
					bad = true
				}
				return 0, false
			}
			return x, true
		}
		rel, same := pred2("areRelatedNodeTypes"), pred2("areSameCategory")
		var relPair, catPair [2]string
		for _, u := range relLabels {
			for _, w := range relLabels {
				if relPair[0] == "" && u != w && rel(u, w) {
					relPair = [2]string{u, w}
				}
			}
		}
		for _, u := range catLabels {
			for _, w := range catLabels {
				if catPair[0] == "" && u != w && u != "" && w != "" && same(u, w) && !rel(u, w) && !strings.Contains(u, "(") && !strings.Contains(w, "(") {
					catPair = [2]string{u, w}
				}
			}
		}
		top := ""
		if len(toplevel) > 0 {
			top = toplevel[0]
		}
		levels := []struct {
			name   string
			l1, l2 string
		}{
			{"toplevel_other_name", top + "(A)", top + "(B)"},
			{"same_base", prefixes["identifier_prefix"] + "a)", prefixes["identifier_prefix"] + "b)"},
			{"related", relPair[0], relPair[1]},
			{"same_category", catPair[0], catPair[1]},
			{"none", "Zzz", "Yyy"},
		}
		for _, lv := range levels {
			if lv.l1 == "" || lv.l2 == "" || lv.l1 == "(A)" {
				fail("ted: calculateLabelSimilarity: no representative label pair for %s", lv.name)
				continue
			}
			if x, ok := sim(lv.l1, lv.l2); ok {
				q, _ := floatQ(x)
				fmt.Fprintf(b, "Definition ted_py_sim_%s : Q := %s.  (* calculateLabelSimilarity(%q, %q) *)\n", lv.name, q, lv.l1, lv.l2)
			}
		}
		labels := []string{"", "Zzz", "Zzz(a)", "Zzz(b)", "Name(a", "Name)a(", "(x)"}
		for _, t := range toplevel {
			labels = addDistinct(labels, t, t+"(A)", t+"(B)", t+"(A")
		}
		labels = addDistinct(labels, prefixes["identifier_prefix"]+"a)", prefixes["identifier_prefix"]+"b)", prefixes["literal_prefix"]+"1)")
		for i, m := range relLabels {
			if i < 6 {
				labels = addDistinct(labels, m, m+"(x)")
			}
		}
		labels = addDistinct(labels, catPair[0], catPair[1])
		var rows []string
		for _, l1 := range labels {
			for _, l2 := range labels {
				if x, ok := sim(l1, l2); ok {
					q, _ := floatQ(x)
					rows = append(rows, fmt.Sprintf("((%s, %s), %s)", tedStr(l1), tedStr(l2), q))
				}
			}
		}
		emitTable(tb, "calculateLabelSimilarity_table", "(string * string) * Q", rows)
	}
}
