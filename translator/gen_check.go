package main

// gen_check.go: constants, flag defaults, request literals and comparison operators of
// cmd/pyscn/check.go (the `pyscn check` gate, property C19) -> coq/Gen/CheckConst.v.
//
// Everything the model Cli/Gate.v does not want to hard-code is read off the AST:
//   * flag defaults          cmd.Flags().IntVar(&c.maxComplexity, "max-complexity", 10, ...)
//   * request literals       &domain.ComplexityRequest{MinComplexity: .., MaxComplexity: ..}, DeadCodeRequest{MinSeverity: ..}
//   * comparison operators   function.Metrics.Complexity > maxComplexity, depsIssues > c.maxCycles, issueCount > 0
//   * merge sentinels        override.MinComplexity != 1, override.MaxComplexity != 0, override.MinSeverity != Warning
//   * severity level tables  DeadCodeSeverity.Level(), MockDataSeverity.Level()
//   * the failure exit code  os.Exit(1) in main.go

import (
	"fmt"
	"go/ast"
	"go/token"
	"go/types"
	"path/filepath"
	"sort"
	"strconv"
	"strings"
)

func flagName(s string) string {
	return strings.ReplaceAll(s, "-", "_")
}

// selName renders a selector chain a.b.c
func selName(e ast.Expr) string {
	switch x := e.(type) {
	case *ast.Ident:
		return x.Name
	case *ast.SelectorExpr:
		return selName(x.X) + "." + x.Sel.Name
	case *ast.ParenExpr:
		return selName(x.X)
	}
	return "?"
}

func intLit(e ast.Expr) (int64, bool) {
	neg := false
	if u, ok := e.(*ast.UnaryExpr); ok && u.Op == token.SUB {
		neg = true
		e = u.X
	}
	bl, ok := e.(*ast.BasicLit)
	if !ok || bl.Kind != token.INT {
		return 0, false
	}
	v, err := strconv.ParseInt(bl.Value, 0, 64)
	if err != nil {
		return 0, false
	}
	if neg {
		v = -v
	}
	return v, true
}

func coqCmp(op token.Token) (string, bool) {
	switch op {
	case token.GTR:
		return "Z.gtb a b", true
	case token.GEQ:
		return "Z.geb a b", true
	case token.LSS:
		return "Z.ltb a b", true
	case token.LEQ:
		return "Z.leb a b", true
	case token.EQL:
		return "Z.eqb a b", true
	case token.NEQ:
		return "negb (Z.eqb a b)", true
	}
	return "", false
}

// findCmp finds the unique binary comparison in fd whose operands print as lhs and rhs.
func findCmp(fd *ast.FuncDecl, lhs, rhs string) (token.Token, int) {
	var op token.Token
	n := 0
	ast.Inspect(fd, func(nd ast.Node) bool {
		be, ok := nd.(*ast.BinaryExpr)
		if !ok {
			return true
		}
		if selName(be.X) == lhs && selName(be.Y) == rhs {
			if _, ok := coqCmp(be.Op); ok {
				op = be.Op
				n++
			}
		}
		return true
	})
	return op, n
}

// compositeFields returns field -> expr of the first composite literal of the named type in fd.
func compositeFields(fd *ast.FuncDecl, typ string) map[string]ast.Expr {
	var res map[string]ast.Expr
	ast.Inspect(fd, func(nd ast.Node) bool {
		cl, ok := nd.(*ast.CompositeLit)
		if !ok || res != nil {
			return res == nil
		}
		if selName(cl.Type) != typ {
			return true
		}
		res = map[string]ast.Expr{}
		for _, el := range cl.Elts {
			if kv, ok := el.(*ast.KeyValueExpr); ok {
				if id, ok := kv.Key.(*ast.Ident); ok {
					res[id.Name] = kv.Value
				}
			}
		}
		return false
	})
	return res
}

// levelTable parses `func (s T) Level() int { switch s { case A: return 1 ... default: return 0 } }`.
func levelTable(p *pkgInfo, file, recv string) (map[string]int64, int64, bool) {
	fd := findFunc(p, file, recv, "Level")
	if fd == nil {
		return nil, 0, false
	}
	tab := map[string]int64{}
	var dflt int64
	ok := false
	ast.Inspect(fd, func(nd ast.Node) bool {
		cc, isCC := nd.(*ast.CaseClause)
		if !isCC {
			return true
		}
		if len(cc.Body) != 1 {
			return true
		}
		rs, isRet := cc.Body[0].(*ast.ReturnStmt)
		if !isRet || len(rs.Results) != 1 {
			return true
		}
		v, isInt := intLit(rs.Results[0])
		if !isInt {
			return true
		}
		if cc.List == nil {
			dflt = v
			ok = true
		}
		for _, e := range cc.List {
			tab[selName(e)] = v
		}
		return true
	})
	return tab, dflt, ok && len(tab) > 0
}

func init() {
	generators = append(generators, func() {
		var b, tb strings.Builder
		cmd := loadPkg("cmd/pyscn")
		dom := loadPkg("domain")
		svc := loadPkg("service")
		if cmd == nil || dom == nil || svc == nil {
			fail("gen_check: packages not loadable")
			return
		}

		// ---- flag defaults ------------------------------------------------------------
		cc := findFunc(cmd, "check.go", "CheckCommand", "CreateCobraCommand")
		if cc == nil {
			fail("gen_check: CheckCommand.CreateCobraCommand not found")
			return
		}
		ints := map[string]int64{}
		bools := map[string]bool{}
		ast.Inspect(cc, func(nd ast.Node) bool {
			ce, ok := nd.(*ast.CallExpr)
			if !ok {
				return true
			}
			se, ok := ce.Fun.(*ast.SelectorExpr)
			if !ok {
				return true
			}
			var nameIdx, defIdx int
			switch se.Sel.Name {
			case "IntVar", "BoolVar":
				nameIdx, defIdx = 1, 2
			case "IntVarP", "BoolVarP":
				nameIdx, defIdx = 1, 3
			default:
				return true
			}
			if len(ce.Args) <= defIdx {
				return true
			}
			nl, ok := ce.Args[nameIdx].(*ast.BasicLit)
			if !ok || nl.Kind != token.STRING {
				return true
			}
			name, _ := strconv.Unquote(nl.Value)
			if strings.HasPrefix(se.Sel.Name, "Int") {
				if v, ok := intLit(ce.Args[defIdx]); ok {
					ints[name] = v
				} else {
					fail("gen_check: default of int flag --%s is not a literal", name)
				}
			} else {
				if id, ok := ce.Args[defIdx].(*ast.Ident); ok && (id.Name == "true" || id.Name == "false") {
					bools[name] = id.Name == "true"
				} else {
					fail("gen_check: default of bool flag --%s is not a literal", name)
				}
			}
			return true
		})
		for _, need := range []string{"max-complexity", "max-cycles"} {
			if _, ok := ints[need]; !ok {
				fail("gen_check: int flag --%s not found in check.go", need)
			}
		}
		for _, need := range []string{"allow-dead-code", "skip-clones", "allow-circular-deps", "quiet"} {
			if _, ok := bools[need]; !ok {
				fail("gen_check: bool flag --%s not found in check.go", need)
			}
		}
		names := []string{}
		for k := range ints {
			names = append(names, k)
		}
		sort.Strings(names)
		b.WriteString("(* flag defaults of `pyscn check` (cmd/pyscn/check.go: CreateCobraCommand) *)\n")
		for _, k := range names {
			fmt.Fprintf(&b, "Definition check_flag_default_%s : Z := (%d)%%Z.\n", flagName(k), ints[k])
		}
		names = names[:0]
		for k := range bools {
			names = append(names, k)
		}
		sort.Strings(names)
		for _, k := range names {
			fmt.Fprintf(&b, "Definition check_flag_default_%s : bool := %v.\n", flagName(k), bools[k])
		}

		// ---- severity level tables: Level() and IsAtLeast evaluated on the constants of the type -------------------
		in := newInterp(cmd, dom, svc)
		levelsOf := func(file, recv string, names []string) (map[string]int64, int64, bool) {
			fd := findFunc(dom, file, recv, "Level")
			if fd == nil {
				return nil, 0, false
			}
			tab := map[string]int64{}
			for _, n := range names {
				c, _ := dom.pkg.Scope().Lookup(n).(*types.Const)
				if c == nil {
					fail("gen_check: constant domain.%s not found", n)
					return nil, 0, false
				}
				cv, _ := constToValue(c.Val(), c.Type())
				lv, err := asInt(in.call1(dom, fd, cv))
				if err != nil {
					fail("gen_check: %s.Level cannot be evaluated on %s: %v", recv, n, err)
					return nil, 0, false
				}
				tab[n] = lv
			}
			other, err := asInt(in.call1(dom, fd, "no-such-severity"))
			if err != nil {
				fail("gen_check: %s.Level cannot be evaluated: %v", recv, err)
				return nil, 0, false
			}
			return tab, other, true
		}
		deadNames := []string{"DeadCodeSeverityInfo", "DeadCodeSeverityWarning", "DeadCodeSeverityCritical"}
		mockNames := []string{"MockDataSeverityInfo", "MockDataSeverityWarning", "MockDataSeverityError"}
		dl, ddef, ok1 := levelsOf("dead_code.go", "DeadCodeSeverity", deadNames)
		ml, mdef, ok2 := levelsOf("mock_data.go", "MockDataSeverity", mockNames)
		if !ok1 || !ok2 {
			fail("gen_check: Level() of DeadCodeSeverity / MockDataSeverity cannot be read")
			return
		}
		b.WriteString("\n(* domain.DeadCodeSeverity.Level / domain.MockDataSeverity.Level *)\n")
		for _, k := range deadNames {
			fmt.Fprintf(&b, "Definition domain_level_%s : Z := (%d)%%Z.\n", k, dl[k])
		}
		fmt.Fprintf(&b, "Definition domain_level_DeadCodeSeverity_other : Z := (%d)%%Z.\n", ddef)
		for _, k := range mockNames {
			fmt.Fprintf(&b, "Definition domain_level_%s : Z := (%d)%%Z.\n", k, ml[k])
		}
		fmt.Fprintf(&b, "Definition domain_level_MockDataSeverity_other : Z := (%d)%%Z.\n", mdef)
		for _, it := range []struct {
			recv, file string
			names      []string
			tab        map[string]int64
		}{{"DeadCodeSeverity", "dead_code.go", deadNames, dl}, {"MockDataSeverity", "mock_data.go", mockNames, ml}} {
			fd := findFunc(dom, it.file, it.recv, "IsAtLeast")
			if fd == nil {
				fail("gen_check: %s.IsAtLeast not found", it.recv)
				continue
			}
			// three constants with increasing levels: the middle one is the threshold
			ns := append([]string{}, it.names...)
			sort.SliceStable(ns, func(i, j int) bool { return it.tab[ns[i]] < it.tab[ns[j]] })
			if !(it.tab[ns[0]] < it.tab[ns[1]] && it.tab[ns[1]] < it.tab[ns[2]]) {
				fail("gen_check: the levels of %s are not three distinct numbers", it.recv)
				continue
			}
			val := func(n string) Value {
				c := dom.pkg.Scope().Lookup(n).(*types.Const)
				v, _ := constToValue(c.Val(), c.Type())
				return v
			}
			op, ok := probe3("gen_check: "+it.recv+".IsAtLeast", func(rel int64) (bool, error) {
				return asBool(in.call1(dom, fd, val(ns[1+rel]), val(ns[1])))
			})
			if !ok {
				continue
			}
			sc, _ := coqCmp(op)
			fmt.Fprintf(&b, "Definition domain_%s_is_at_least (a b : Z) : bool := %s.  (* s.Level() %s minSeverity.Level() *)\n", it.recv, sc, op)
		}

		sevLevel := func(e ast.Expr, tab map[string]int64, what string) int64 {
			n := selName(e)
			n = strings.TrimPrefix(n, "domain.")
			v, ok := tab[n]
			if !ok {
				fail("gen_check: %s = %s is not a known severity constant", what, n)
			}
			return v
		}

		// ---- checkComplexity: interpreted with the analysis stubbed out ------------------------------------------
		fcx := findFunc(cmd, "check.go", "CheckCommand", "checkComplexity")
		if fcx == nil {
			fail("gen_check: checkComplexity not found")
			return
		}
		b.WriteString("\n(* checkComplexity: request literal and the gate comparison (read by evaluation) *)\n")
		// runComplexity(flag value, flag given, merged request maximum (nil: no request), complexities, analysis error)
		var cxRequest *Struct // the request checkComplexity hands to the use case
		runComplexity := func(flagValue int64, given bool, reqMax *int64, cxs []int64, failAnalysis bool) (int64, bool, error) {
			st := newCheckStubs()
			st.changed["max-complexity"] = given
			st.calls["useCase.AnalyzeAndReturn"] = func(c *CallCtx) []Value {
				if c.NArgs() == 2 {
					cxRequest, _ = c.Arg(1).(*Struct)
				}
				if failAnalysis {
					return []Value{nil, &ErrVal{Msg: "analysis error"}}
				}
				fns := &Slice{}
				for i, cx := range cxs {
					fns.E = append(fns.E, mkStruct("FunctionComplexity", "Name", fmt.Sprintf("f%d", i), "FilePath", "a.py", "StartLine", int64(i+1), "StartColumn", int64(0),
						"Metrics", mkStruct("ComplexityMetrics", "Complexity", cx)))
				}
				var req Value
				if reqMax != nil {
					req = mkStruct("ComplexityRequest", "MaxComplexity", *reqMax, "MinComplexity", int64(1))
				} else {
					req = (*Struct)(nil)
				}
				return []Value{mkStruct("ComplexityResponse", "Functions", fns, "Request", req), nil}
			}
			in.Extern = st.hook
			defer func() { in.Extern = nil }()
			c := mkStruct("CheckCommand", "maxComplexity", flagValue, "quiet", false, "configFile", "")
			vs, err := in.CallFunc(cmd, fcx, c, mkStruct("cobra.Command"), mkSlice("."))
			if err != nil {
				return 0, false, err
			}
			if len(vs) != 2 {
				return 0, false, fmt.Errorf("checkComplexity returned %d results", len(vs))
			}
			n, _ := vs[0].(int64)
			return n, !isNilVal(vs[1]), nil
		}
		z := func(v int64) *int64 { return &v }
		if _, _, err := runComplexity(10, true, z(0), []int64{3}, false); err != nil {
			fail("gen_check: checkComplexity cannot be evaluated: %v", err)
		} else {
			for _, k := range []string{"MinComplexity", "MaxComplexity"} {
				v, ok := int64(0), false
				if cxRequest != nil {
					v, ok = cxRequest.F[k].(int64)
				}
				if !ok {
					fail("gen_check: ComplexityRequest.%s is not set to an integer by checkComplexity", k)
					continue
				}
				fmt.Fprintf(&b, "Definition check_req_%s : Z := (%d)%%Z.\n", k, v)
			}
			if op, ok := probe3("gen_check: checkComplexity: complexity against the threshold", func(rel int64) (bool, error) {
				n, _, err := runComplexity(20, true, z(0), []int64{20 + rel}, false)
				return n == 1, err
			}); ok {
				sc, _ := coqCmp(op)
				fmt.Fprintf(&b, "Definition check_cx_exceeds (a b : Z) : bool := %s.  (* function.Metrics.Complexity %s maxComplexity *)\n", sc, op)
			}
			// the merged request value replaces the flag default when the flag is not given and the value is "given":
			// a function of complexity 5 is an issue under a threshold of -1/0/1 but not under the flag value 10
			if op, ok := probe3("gen_check: checkComplexity: merged MaxComplexity against 0", func(rel int64) (bool, error) {
				n, _, err := runComplexity(10, false, z(rel), []int64{5}, false)
				return n == 1, err
			}); ok {
				sc, _ := coqCmp(op)
				fmt.Fprintf(&b, "Definition check_cfg_max_given (a b : Z) : bool := %s.  (* response.Request.MaxComplexity %s 0 *)\n", sc, op)
			}
			// decision table: (((flag given, flag value), merged request maximum), complexities) -> (issue count, error)
			dflt := ints["max-complexity"]
			var rows []string
			cxLists := [][]int64{{}, {1}, {4, 5, 6}, {9, 10, 11}, {11, 12, 13, 1, 30}, {6, 7, 8}}
			for _, cfg := range []struct {
				given bool
				flag  int64
				req   int64
			}{{true, 5, 0}, {true, 10, 7}, {true, 0, 12}, {true, 12, 5}, {false, dflt, 0}, {false, dflt, 1}, {false, dflt, 5}, {false, dflt, 7}, {false, dflt, 12}} {
				for _, cxs := range cxLists {
					n, failed, err := runComplexity(cfg.flag, cfg.given, z(cfg.req), cxs, false)
					if err != nil {
						fail("gen_check: checkComplexity cannot be evaluated: %v", err)
						break
					}
					var items []string
					for _, x := range cxs {
						items = append(items, coqZint(x))
					}
					rows = append(rows, fmt.Sprintf("((((%s, %s), %s), [%s]), (%s, %s))", coqBool(cfg.given), coqZint(cfg.flag), coqZint(cfg.req), strings.Join(items, "; "), coqZint(n), coqBool(failed)))
				}
			}
			if n, failed, err := runComplexity(10, false, z(0), []int64{50}, true); err == nil {
				rows = append(rows, fmt.Sprintf("((((false, %s), (0)%%Z), [(50)%%Z]), (%s, %s))", coqZint(dflt), coqZint(n), coqBool(failed)))
				if !failed {
					fail("gen_check: checkComplexity does not report an analysis error")
				}
			}
			emitTable(&tb, "checkComplexity_table", "(((bool * Z) * Z) * list Z) * (Z * bool)", rows)
		}

		// ---- checkDeadCode ----------------------------------------------------------------
		fdc := findFunc(cmd, "check.go", "CheckCommand", "checkDeadCode")
		if fdc == nil {
			fail("gen_check: checkDeadCode not found")
			return
		}
		b.WriteString("\n(* checkDeadCode: requested severity, fallback gate severity *)\n")
		df := compositeFields(fdc, "domain.DeadCodeRequest")
		if df == nil || df["MinSeverity"] == nil {
			fail("gen_check: DeadCodeRequest.MinSeverity not found in checkDeadCode")
		} else {
			fmt.Fprintf(&b, "Definition check_req_MinSeverity_level : Z := (%d)%%Z.  (* %s *)\n", sevLevel(df["MinSeverity"], dl, "DeadCodeRequest.MinSeverity"), selName(df["MinSeverity"]))
		}
		var gateDefault ast.Expr
		ast.Inspect(fdc, func(nd ast.Node) bool {
			if as, ok := nd.(*ast.AssignStmt); ok && as.Tok == token.DEFINE && len(as.Lhs) == 1 && len(as.Rhs) == 1 {
				if id, ok := as.Lhs[0].(*ast.Ident); ok && id.Name == "minSeverity" {
					gateDefault = as.Rhs[0]
				}
			}
			return true
		})
		if gateDefault == nil {
			fail("gen_check: `minSeverity := ...` not found in checkDeadCode")
		} else {
			fmt.Fprintf(&b, "Definition check_gate_default_severity_level : Z := (%d)%%Z.  (* %s *)\n", sevLevel(gateDefault, dl, "minSeverity default"), selName(gateDefault))
		}

		// ---- checkMockdata ----------------------------------------------------------------
		fmd := findFunc(cmd, "check.go", "CheckCommand", "checkMockdata")
		if fmd == nil {
			fail("gen_check: checkMockdata not found")
			return
		}
		var mockGate ast.Expr
		ast.Inspect(fmd, func(nd ast.Node) bool {
			if ce, ok := nd.(*ast.CallExpr); ok {
				if se, ok := ce.Fun.(*ast.SelectorExpr); ok && se.Sel.Name == "IsAtLeast" && len(ce.Args) == 1 {
					mockGate = ce.Args[0]
				}
			}
			return true
		})
		if mockGate == nil {
			fail("gen_check: IsAtLeast(...) not found in checkMockdata")
		} else {
			fmt.Fprintf(&b, "\nDefinition check_mock_gate_level : Z := (%d)%%Z.  (* %s *)\n", sevLevel(mockGate, ml, "mock gate"), selName(mockGate))
		}

		// ---- runCheck: interpreted with the five analyses stubbed out ---------------------------------------------
		frc := findFunc(cmd, "check.go", "CheckCommand", "runCheck")
		if frc == nil {
			fail("gen_check: runCheck not found")
			return
		}
		b.WriteString("\n(* runCheck: cycle threshold and final decision (read by evaluation) *)\n")
		type phase struct {
			n   int64
			err bool
		}
		type runFlags struct {
			quiet, allowDead, skipClones, allowCirc bool
			maxCycles                               int64
		}
		phaseNames := []string{"c.checkComplexity", "c.checkDeadCode", "c.checkClones", "c.checkCircularDependencies", "c.checkMockdata"}
		var resolveArgs []Value
		runCheck := func(sel []string, fl runFlags, ph [5]phase) (bool, error) {
			st := newCheckStubs()
			for i, name := range phaseNames {
				p := ph[i]
				st.calls[name] = func(c *CallCtx) []Value {
					if p.err {
						return []Value{int64(0), &ErrVal{Msg: "phase failed"}}
					}
					return []Value{p.n, nil}
				}
			}
			st.suffix[".ResolveConfigPath"] = func(c *CallCtx) []Value {
				resolveArgs = nil
				for i := 0; i < c.NArgs(); i++ {
					resolveArgs = append(resolveArgs, c.Arg(i))
				}
				return []Value{"RESOLVED", nil}
			}
			in.Extern = st.hook
			defer func() { in.Extern = nil }()
			sl := &Slice{}
			for _, x := range sel {
				sl.E = append(sl.E, x)
			}
			c := mkStruct("CheckCommand", "configFile", "CFG", "quiet", fl.quiet, "maxComplexity", int64(10), "allowDeadCode", fl.allowDead,
				"skipClones", fl.skipClones, "allowCircularDeps", fl.allowCirc, "maxCycles", fl.maxCycles, "selectAnalyses", sl)
			v, err := in.call1(cmd, frc, c, mkStruct("cobra.Command"), mkSlice("TARGET", "OTHER"))
			if err != nil {
				return false, err
			}
			return !isNilVal(v), nil
		}
		if _, err := runCheck(nil, runFlags{}, [5]phase{}); err != nil {
			fail("gen_check: runCheck cannot be evaluated: %v", err)
		} else {
			if op, ok := probe3("gen_check: runCheck: cycles against --max-cycles", func(rel int64) (bool, error) {
				return runCheck([]string{"deps"}, runFlags{maxCycles: 3}, [5]phase{{}, {}, {}, {n: 3 + rel}, {}})
			}); ok {
				sc, _ := coqCmp(op)
				fmt.Fprintf(&b, "Definition check_cycles_exceed (a b : Z) : bool := %s.  (* depsIssues %s c.maxCycles *)\n", sc, op)
			}
			if op, ok := probe3("gen_check: runCheck: issue count against 0", func(rel int64) (bool, error) {
				return runCheck([]string{"complexity"}, runFlags{}, [5]phase{{n: rel}, {}, {}, {}, {}})
			}); ok {
				sc, _ := coqCmp(op)
				fmt.Fprintf(&b, "Definition check_has_issues (a b : Z) : bool := %s.  (* issueCount %s 0 *)\n", sc, op)
			}
			// does runCheck resolve the config file from the first target (as analyze does)?
			fromTarget := len(resolveArgs) == 2 && resolveArgs[0] == "CFG" && resolveArgs[1] == "TARGET"
			fmt.Fprintf(&b, "Definition check_config_from_target : bool := %v.  (* runCheck calls ResolveConfigPath(c.configFile, args[0]) *)\n", fromTarget)

			// decision table: ((select, ((quiet, allow-dead-code, skip-clones, allow-circular-deps), max-cycles)), five (issues, error)) -> command fails
			sels := [][]string{{}, {"complexity"}, {"deadcode"}, {"clones"}, {"deps"}, {"circular"}, {"mockdata"}, {"deps", "complexity"},
				{"bogus"}, {"complexity", "bogus"}, {"complexity", "deadcode", "clones", "deps", "mockdata"}, {"clones", "mockdata"}}
			flagSets := []runFlags{{}, {quiet: true}, {allowDead: true}, {skipClones: true}, {allowCirc: true}, {maxCycles: 2}, {allowCirc: true, maxCycles: 2}}
			var phs [][5]phase
			phs = append(phs, [5]phase{})
			for i := 0; i < 5; i++ {
				var one, bad [5]phase
				one[i].n = 1
				bad[i].err = true
				phs = append(phs, one, bad)
			}
			phs = append(phs, [5]phase{{}, {}, {}, {n: 2}, {}}, [5]phase{{}, {}, {}, {n: 3}, {}}, [5]phase{{n: 1}, {n: 1}, {n: 1}, {n: 1}, {n: 1}},
				[5]phase{{n: 2}, {err: true}, {n: 1}, {n: 3}, {}}, [5]phase{{}, {n: 4}, {err: true}, {}, {n: 2}})
			var rows []string
			bad := false
			for _, sel := range sels {
				for _, fl := range flagSets {
					for _, ph := range phs {
						failed, err := runCheck(sel, fl, ph)
						if err != nil {
							if !bad {
								fail("gen_check: runCheck cannot be evaluated: %v", err)
							}
							bad = true
							continue
						}
						var ss, ps []string
						for _, x := range sel {
							ss = append(ss, tedStr(x))
						}
						for _, x := range ph {
							ps = append(ps, fmt.Sprintf("(%s, %s)", coqZint(x.n), coqBool(x.err)))
						}
						rows = append(rows, fmt.Sprintf("((([%s], ((%s, %s, %s, %s), %s)), [%s]), %s)", strings.Join(ss, "; "), coqBool(fl.quiet), coqBool(fl.allowDead),
							coqBool(fl.skipClones), coqBool(fl.allowCirc), coqZint(fl.maxCycles), strings.Join(ps, "; "), coqBool(failed)))
					}
				}
			}
			if bad {
				rows = nil
			}
			emitTable(&tb, "runCheck_table", "((list string * ((bool * bool * bool * bool) * Z)) * list (Z * bool)) * bool", rows)
		}

		// ---- checkCircularDependencies: the project roots among the targets, and the loop over them --------------
		fdr := findFunc(cmd, "check.go", "", "dependencyProjectRoots")
		fcd := findFunc(cmd, "check.go", "CheckCommand", "checkCircularDependencies")
		if fdr == nil || fcd == nil {
			fail("gen_check: dependencyProjectRoots / checkCircularDependencies not found")
		} else {
			// a target = an absolute path as spelled; the model sees its cleaned components (names as numbers)
			// names that are string prefixes of a sibling's name (a / ab / a.b / a_2, p / pa): containment is by whole path
			// components, a target whose text merely starts with another target's text is a project root of its own
			nameNo := map[string]int{"p": 1, "a": 2, "b": 3, "ab": 4, "q": 5, "a.b": 6, "a_2": 7, "pa": 8}
			comps := func(p string) (string, bool) {
				var xs []string
				for _, c := range strings.Split(filepath.Clean(p), "/") {
					if c == "" {
						continue
					}
					n, ok := nameNo[c]
					if !ok {
						return "", false
					}
					xs = append(xs, fmt.Sprintf("%d%%N", n))
				}
				return "[" + strings.Join(xs, "; ") + "]", true
			}
			spellings := []string{"/p", "/p/a", "/p/a/b", "/p/b", "/p/ab", "/q", "/p/a/", "/p/b/../a", "/", "/p/a.b", "/p/a_2/", "/pa", "/pa/a"}
			var lists [][]string
			for _, x := range spellings {
				lists = append(lists, []string{x})
				for _, y := range spellings {
					lists = append(lists, []string{x, y})
				}
			}
			short := []string{"/p", "/p/a", "/p/a/b", "/p/ab", "/q", "/p/a/"}
			for _, x := range short {
				for _, y := range short {
					for _, z := range short {
						lists = append(lists, []string{x, y, z})
					}
				}
			}
			lists = append(lists, []string{"/p/a/b", "/p/a", "/p", "/p/a/b"}, []string{"/q", "/p/a", "/q", "/p/a/b", "/p/a"},
				[]string{"/p/a", "/p/ab", "/p/a.b", "/p/a_2"}, []string{"/p/a_2", "/p/a.b", "/p/ab", "/p/a"}, []string{"/p/ab", "/p/a", "/p/a/b", "/p/a.b"},
				[]string{"/pa", "/p", "/p/a"}, []string{"/p/a", "/pa", "/p"}, []string{"/pa/a", "/p/a", "/pa"})
			var rows []string
			bad := false
			for _, l := range lists {
				sl := &Slice{}
				var as []string
				for _, x := range l {
					sl.E = append(sl.E, x)
					c, _ := comps(x)
					as = append(as, c)
				}
				v, err := in.call1(cmd, fdr, nil, sl)
				rs, isSlice := v.(*Slice)
				if err != nil || !isSlice || rs == nil {
					if !bad {
						fail("gen_check: dependencyProjectRoots cannot be evaluated on %v: %v", l, err)
					}
					bad = true
					continue
				}
				var outs []string
				for _, e := range rs.E {
					s, _ := e.(string)
					c, ok := comps(s)
					if !ok {
						fail("gen_check: dependencyProjectRoots returned %q, which is not one of the targets", s)
					}
					outs = append(outs, c)
				}
				rows = append(rows, fmt.Sprintf("([%s], [%s])", strings.Join(as, "; "), strings.Join(outs, "; ")))
			}
			if v, err := in.call1(cmd, fdr, nil, &Slice{}); err != nil {
				fail("gen_check: dependencyProjectRoots cannot be evaluated without targets: %v", err)
			} else if rs, ok := v.(*Slice); !ok || rs == nil || len(rs.E) != 1 || rs.E[0] != "." {
				fail("gen_check: dependencyProjectRoots() without targets is not [\".\"]")
			}
			if bad {
				rows = nil
			}
			emitTable(&tb, "dependencyProjectRoots_table", "list (list N) * list (list N)", rows)

			// the loop: per root (cycles, error) -> (total, error); distinct unrelated targets, so every target is a root
			type rootRes struct {
				n   int64
				err bool
			}
			var crow []string
			bad = false
			for _, rr := range [][]rootRes{{}, {{n: 0}}, {{n: 2}}, {{err: true}}, {{n: 1}, {n: 2}}, {{n: 0}, {n: 3}}, {{n: 3}, {n: 0}}, {{n: 1}, {err: true}},
				{{err: true}, {n: 2}}, {{n: 1}, {n: 2}, {n: 4}}, {{n: 1}, {err: true}, {n: 4}}, {{n: 0}, {n: 0}, {n: 0}}, {{n: 2}, {n: 0}, {err: true}}} {
				st := newCheckStubs()
				k := 0
				res := rr
				st.calls["c.checkCircularDependenciesIn"] = func(c *CallCtx) []Value {
					r := res[k%len(res)]
					k++
					if r.err {
						return []Value{int64(0), &ErrVal{Msg: "root failed"}}
					}
					return []Value{r.n, nil}
				}
				in.Extern = st.hook
				sl := &Slice{}
				for i := range rr {
					sl.E = append(sl.E, fmt.Sprintf("/t%d", i))
				}
				if len(rr) == 0 {
					// no target: one root (the working directory), here without cycles
					res = []rootRes{{}}
				}
				vs, err := in.CallFunc(cmd, fcd, mkStruct("CheckCommand", "quiet", true), mkStruct("cobra.Command"), sl)
				in.Extern = nil
				if err != nil || len(vs) != 2 {
					if !bad {
						fail("gen_check: checkCircularDependencies cannot be evaluated: %v", err)
					}
					bad = true
					continue
				}
				if want := len(res); k != want && !(k < want && !isNilVal(vs[1])) {
					fail("gen_check: checkCircularDependencies analysed %d roots for %d unrelated targets", k, want)
				}
				n, _ := vs[0].(int64)
				var ps []string
				for _, x := range res {
					ps = append(ps, fmt.Sprintf("(%s, %s)", coqZint(x.n), coqBool(x.err)))
				}
				crow = append(crow, fmt.Sprintf("([%s], (%s, %s))", strings.Join(ps, "; "), coqZint(n), coqBool(!isNilVal(vs[1]))))
			}
			if bad {
				crow = nil
			}
			emitTable(&tb, "checkCircularDependencies_table", "list (Z * bool) * (Z * bool)", crow)
		}

		// ---- merge sentinels in package service ---------------------------------------------
		b.WriteString("\n(* service: MergeConfig sentinels (a request value equal to the sentinel counts as \"not given\") *)\n")
		mc := findFunc(svc, "config_loader.go", "ConfigurationLoaderImpl", "MergeConfig")
		if mc == nil {
			fail("gen_check: ConfigurationLoaderImpl.MergeConfig not found")
		} else {
			for _, k := range []string{"MinComplexity", "MaxComplexity"} {
				n := 0
				var val int64
				ast.Inspect(mc, func(nd ast.Node) bool {
					if is, ok := nd.(*ast.IfStmt); ok {
						if be, ok := is.Cond.(*ast.BinaryExpr); ok && be.Op == token.NEQ && selName(be.X) == "override."+k {
							if v, ok := intLit(be.Y); ok {
								val = v
								n++
							}
						}
					}
					return true
				})
				if n != 1 {
					fail("gen_check: `if override.%s != <literal>` found %d times in MergeConfig", k, n)
				}
				fmt.Fprintf(&b, "Definition svc_merge_sentinel_%s : Z := (%d)%%Z.\n", k, val)
			}
		}
		md := findFunc(svc, "dead_code_config_loader.go", "DeadCodeConfigurationLoaderImpl", "MergeConfig")
		if md == nil {
			fail("gen_check: DeadCodeConfigurationLoaderImpl.MergeConfig not found")
		} else {
			n := 0
			var lvl int64
			ast.Inspect(md, func(nd ast.Node) bool {
				if be, ok := nd.(*ast.BinaryExpr); ok && be.Op == token.NEQ && selName(be.X) == "override.MinSeverity" {
					if _, isSel := be.Y.(*ast.SelectorExpr); isSel {
						lvl = sevLevel(be.Y, dl, "MinSeverity merge sentinel")
						n++
					}
				}
				return true
			})
			if n != 1 {
				fail("gen_check: `override.MinSeverity != domain.<const>` found %d times in dead-code MergeConfig", n)
			}
			fmt.Fprintf(&b, "Definition svc_merge_sentinel_MinSeverity_level : Z := (%d)%%Z.\n", lvl)
		}

		// ---- exit code ----------------------------------------------------------------------
		fm := findFunc(cmd, "main.go", "", "main")
		if fm == nil {
			fail("gen_check: main.main not found")
		} else {
			n := 0
			var code int64
			ast.Inspect(fm, func(nd ast.Node) bool {
				if ce, ok := nd.(*ast.CallExpr); ok && selName(ce.Fun) == "os.Exit" && len(ce.Args) == 1 {
					if v, ok := intLit(ce.Args[0]); ok {
						code = v
						n++
					}
				}
				return true
			})
			if n != 1 {
				fail("gen_check: os.Exit(<literal>) found %d times in main()", n)
			}
			fmt.Fprintf(&b, "\nDefinition check_exit_failure : Z := (%d)%%Z.  (* main.go: os.Exit when the command returns an error *)\n", code)
		}

		writeGen("CheckConst.v", b.String())
		writeGen("CheckTables.v", tb.String())

		for _, f := range []string{"runCheck", "determineEnabledAnalyses", "containsAnalysis", "validateSelectedAnalyses",
			"checkComplexity", "checkDeadCode", "checkClones", "checkCircularDependencies", "checkCircularDependenciesIn", "checkMockdata",
			"CreateCobraCommand"} {
			recordDigest(cmd, "check.go", "CheckCommand", f)
		}
		recordDigest(cmd, "check.go", "", "dependencyProjectRoots")
		recordDigest(cmd, "main.go", "", "main")
		recordDigest(svc, "config_loader.go", "ConfigurationLoaderImpl", "MergeConfig")
		recordDigest(svc, "config_loader.go", "ConfigurationLoaderImpl", "LoadDefaultConfig")
		recordDigest(svc, "dead_code_config_loader.go", "DeadCodeConfigurationLoaderImpl", "MergeConfig")
		recordDigest(svc, "dead_code_config_loader.go", "DeadCodeConfigurationLoaderImpl", "configToRequest")
		recordDigest(svc, "complexity_service.go", "ComplexityServiceImpl", "filterFunctions")
		recordDigest(svc, "dead_code_service.go", "DeadCodeServiceImpl", "filterFindingsBySeverity")
		recordDigest(dom, "dead_code.go", "DeadCodeSeverity", "Level")
		recordDigest(dom, "dead_code.go", "DeadCodeSeverity", "IsAtLeast")
		cfgp := loadPkg("internal/config")
		if cfgp != nil {
			recordDigest(cfgp, "config.go", "", "PyscnConfigToConfig")
			recordDigest(cfgp, "toml_loader.go", "TomlConfigLoader", "ResolveConfigPath")
			recordDigest(cfgp, "toml_loader.go", "TomlConfigLoader", "FindConfigFileFromPath")
		}
	})
}

// checkStubs: the Extern hook used to interpret the functions of cmd/pyscn/check.go: construction of services and use
// cases, cobra plumbing and printing are stubbed; `calls` / `suffix` give the results of the calls that matter.
type checkStubs struct {
	changed map[string]bool // cmd.Flags().Changed(name)
	calls   map[string]func(c *CallCtx) []Value
	suffix  map[string]func(c *CallCtx) []Value
}

func newCheckStubs() *checkStubs {
	return &checkStubs{changed: map[string]bool{}, calls: map[string]func(c *CallCtx) []Value{}, suffix: map[string]func(c *CallCtx) []Value{}}
}

func (st *checkStubs) hook(c *CallCtx) ([]Value, bool) {
	if f, ok := st.calls[c.Name]; ok {
		return f(c), true
	}
	for sfx, f := range st.suffix {
		if strings.HasSuffix(c.Name, sfx) {
			return f(c), true
		}
	}
	switch {
	case strings.HasSuffix(c.Name, ".Changed") && c.NArgs() == 1:
		name, _ := c.Arg(0).(string)
		return []Value{st.changed[name]}, true
	case strings.HasSuffix(c.Name, ".Flags") && c.NArgs() == 0:
		return []Value{mkStruct("pflag.FlagSet")}, true
	case strings.HasSuffix(c.Name, ".Context") && c.NArgs() == 0:
		return []Value{nil}, true
	case c.Name == "context.Background" || c.Name == "context.TODO":
		return []Value{mkStruct("context.Context")}, true
	case strings.HasSuffix(c.Name, ".ErrOrStderr") || strings.HasSuffix(c.Name, ".OutOrStdout") || strings.HasSuffix(c.Name, ".OutOrStderr"):
		return []Value{mkStruct("io.Writer")}, true
	case c.Name == "fmt.Fprintf" || c.Name == "fmt.Fprintln" || c.Name == "fmt.Fprint":
		return []Value{int64(0), nil}, true
	case strings.HasPrefix(c.Name, "service.New") || strings.HasPrefix(c.Name, "app.New") || strings.HasPrefix(c.Name, "config.New"):
		return []Value{mkStruct(c.Name)}, true
	}
	return nil, false
}
