package main

// gen_check.go: constants, flag defaults, request literals and comparison operators of
// cmd/pyscn/check.go (the `pyscn check` gate, property C19) -> coq/Gen/CheckConst.v.
//
// Everything the model Cli/Gate.v does not want to hard-code is read off the AST:
//   * flag defaults          cmd.Flags().IntVar(&c.maxComplexity, "max-complexity", 10, ...)
//   * request literals       &domain.ComplexityRequest{MinComplexity: .., MaxComplexity: ..}, DeadCodeRequest{MinSeverity: ..}
//   * comparison operators   function.Metrics.Complexity > maxComplexity, depsIssues > c.maxCycles, issueCount > 0
//   * merge sentinels        override.MinComplexity != 1, override.MaxComplexity != 0, override.MinSeverity != Warning
//   * severity level tables  DeadCodeSeverity.Level(), MockDataSeverity.Level()
//   * the failure exit code  os.Exit(1) in main.go

import (
	"fmt"
	"go/ast"
	"go/token"
	"sort"
	"strconv"
	"strings"
)

func flagName(s string) string {
	return strings.ReplaceAll(s, "-", "_")
}

// selName renders a selector chain a.b.c
func selName(e ast.Expr) string {
	switch x := e.(type) {
	case *ast.Ident:
		return x.Name
	case *ast.SelectorExpr:
		return selName(x.X) + "." + x.Sel.Name
	case *ast.ParenExpr:
		return selName(x.X)
	}
	return "?"
}

func intLit(e ast.Expr) (int64, bool) {
	neg := false
	if u, ok := e.(*ast.UnaryExpr); ok && u.Op == token.SUB {
		neg = true
		e = u.X
	}
	bl, ok := e.(*ast.BasicLit)
	if !ok || bl.Kind != token.INT {
		return 0, false
	}
	v, err := strconv.ParseInt(bl.Value, 0, 64)
	if err != nil {
		return 0, false
	}
	if neg {
		v = -v
	}
	return v, true
}

func coqCmp(op token.Token) (string, bool) {
	switch op {
	case token.GTR:
		return "Z.gtb a b", true
	case token.GEQ:
		return "Z.geb a b", true
	case token.LSS:
		return "Z.ltb a b", true
	case token.LEQ:
		return "Z.leb a b", true
	case token.EQL:
		return "Z.eqb a b", true
	case token.NEQ:
		return "negb (Z.eqb a b)", true
	}
	return "", false
}

// findCmp finds the unique binary comparison in fd whose operands print as lhs and rhs.
func findCmp(fd *ast.FuncDecl, lhs, rhs string) (token.Token, int) {
	var op token.Token
	n := 0
	ast.Inspect(fd, func(nd ast.Node) bool {
		be, ok := nd.(*ast.BinaryExpr)
		if !ok {
			return true
		}
		if selName(be.X) == lhs && selName(be.Y) == rhs {
			if _, ok := coqCmp(be.Op); ok {
				op = be.Op
				n++
			}
		}
		return true
	})
	return op, n
}

// compositeFields returns field -> expr of the first composite literal of the named type in fd.
func compositeFields(fd *ast.FuncDecl, typ string) map[string]ast.Expr {
	var res map[string]ast.Expr
	ast.Inspect(fd, func(nd ast.Node) bool {
		cl, ok := nd.(*ast.CompositeLit)
		if !ok || res != nil {
			return res == nil
		}
		if selName(cl.Type) != typ {
			return true
		}
		res = map[string]ast.Expr{}
		for _, el := range cl.Elts {
			if kv, ok := el.(*ast.KeyValueExpr); ok {
				if id, ok := kv.Key.(*ast.Ident); ok {
					res[id.Name] = kv.Value
				}
			}
		}
		return false
	})
	return res
}

// levelTable parses `func (s T) Level() int { switch s { case A: return 1 ... default: return 0 } }`.
func levelTable(p *pkgInfo, file, recv string) (map[string]int64, int64, bool) {
	fd := findFunc(p, file, recv, "Level")
	if fd == nil {
		return nil, 0, false
	}
	tab := map[string]int64{}
	var dflt int64
	ok := false
	ast.Inspect(fd, func(nd ast.Node) bool {
		cc, isCC := nd.(*ast.CaseClause)
		if !isCC {
			return true
		}
		if len(cc.Body) != 1 {
			return true
		}
		rs, isRet := cc.Body[0].(*ast.ReturnStmt)
		if !isRet || len(rs.Results) != 1 {
			return true
		}
		v, isInt := intLit(rs.Results[0])
		if !isInt {
			return true
		}
		if cc.List == nil {
			dflt = v
			ok = true
		}
		for _, e := range cc.List {
			tab[selName(e)] = v
		}
		return true
	})
	return tab, dflt, ok && len(tab) > 0
}

func init() {
	generators = append(generators, func() {
		var b strings.Builder
		cmd := loadPkg("cmd/pyscn")
		dom := loadPkg("domain")
		svc := loadPkg("service")
		if cmd == nil || dom == nil || svc == nil {
			fail("gen_check: packages not loadable")
			return
		}

		// ---- flag defaults ------------------------------------------------------------
		cc := findFunc(cmd, "check.go", "CheckCommand", "CreateCobraCommand")
		if cc == nil {
			fail("gen_check: CheckCommand.CreateCobraCommand not found")
			return
		}
		ints := map[string]int64{}
		bools := map[string]bool{}
		ast.Inspect(cc, func(nd ast.Node) bool {
			ce, ok := nd.(*ast.CallExpr)
			if !ok {
				return true
			}
			se, ok := ce.Fun.(*ast.SelectorExpr)
			if !ok {
				return true
			}
			var nameIdx, defIdx int
			switch se.Sel.Name {
			case "IntVar", "BoolVar":
				nameIdx, defIdx = 1, 2
			case "IntVarP", "BoolVarP":
				nameIdx, defIdx = 1, 3
			default:
				return true
			}
			if len(ce.Args) <= defIdx {
				return true
			}
			nl, ok := ce.Args[nameIdx].(*ast.BasicLit)
			if !ok || nl.Kind != token.STRING {
				return true
			}
			name, _ := strconv.Unquote(nl.Value)
			if strings.HasPrefix(se.Sel.Name, "Int") {
				if v, ok := intLit(ce.Args[defIdx]); ok {
					ints[name] = v
				} else {
					fail("gen_check: default of int flag --%s is not a literal", name)
				}
			} else {
				if id, ok := ce.Args[defIdx].(*ast.Ident); ok && (id.Name == "true" || id.Name == "false") {
					bools[name] = id.Name == "true"
				} else {
					fail("gen_check: default of bool flag --%s is not a literal", name)
				}
			}
			return true
		})
		for _, need := range []string{"max-complexity", "max-cycles"} {
			if _, ok := ints[need]; !ok {
				fail("gen_check: int flag --%s not found in check.go", need)
			}
		}
		for _, need := range []string{"allow-dead-code", "skip-clones", "allow-circular-deps", "quiet"} {
			if _, ok := bools[need]; !ok {
				fail("gen_check: bool flag --%s not found in check.go", need)
			}
		}
		names := []string{}
		for k := range ints {
			names = append(names, k)
		}
		sort.Strings(names)
		b.WriteString("(* flag defaults of `pyscn check` (cmd/pyscn/check.go: CreateCobraCommand) *)\n")
		for _, k := range names {
			fmt.Fprintf(&b, "Definition check_flag_default_%s : Z := (%d)%%Z.\n", flagName(k), ints[k])
		}
		names = names[:0]
		for k := range bools {
			names = append(names, k)
		}
		sort.Strings(names)
		for _, k := range names {
			fmt.Fprintf(&b, "Definition check_flag_default_%s : bool := %v.\n", flagName(k), bools[k])
		}

		// ---- severity level tables ----------------------------------------------------
		dl, ddef, ok1 := levelTable(dom, "dead_code.go", "DeadCodeSeverity")
		ml, mdef, ok2 := levelTable(dom, "mock_data.go", "MockDataSeverity")
		if !ok1 || !ok2 {
			fail("gen_check: Level() tables of DeadCodeSeverity / MockDataSeverity not in the expected shape")
			return
		}
		b.WriteString("\n(* domain.DeadCodeSeverity.Level / domain.MockDataSeverity.Level *)\n")
		for _, k := range []string{"DeadCodeSeverityInfo", "DeadCodeSeverityWarning", "DeadCodeSeverityCritical"} {
			v, ok := dl[k]
			if !ok {
				fail("gen_check: %s missing from DeadCodeSeverity.Level", k)
			}
			fmt.Fprintf(&b, "Definition domain_level_%s : Z := (%d)%%Z.\n", k, v)
		}
		fmt.Fprintf(&b, "Definition domain_level_DeadCodeSeverity_other : Z := (%d)%%Z.\n", ddef)
		for _, k := range []string{"MockDataSeverityInfo", "MockDataSeverityWarning", "MockDataSeverityError"} {
			v, ok := ml[k]
			if !ok {
				fail("gen_check: %s missing from MockDataSeverity.Level", k)
			}
			fmt.Fprintf(&b, "Definition domain_level_%s : Z := (%d)%%Z.\n", k, v)
		}
		fmt.Fprintf(&b, "Definition domain_level_MockDataSeverity_other : Z := (%d)%%Z.\n", mdef)
		for _, recv := range []string{"DeadCodeSeverity", "MockDataSeverity"} {
			file := "dead_code.go"
			if recv == "MockDataSeverity" {
				file = "mock_data.go"
			}
			fd := findFunc(dom, file, recv, "IsAtLeast")
			if fd == nil {
				fail("gen_check: %s.IsAtLeast not found", recv)
				continue
			}
			op, n := findCmp(fd, "s.Level()", "minSeverity.Level()")
			if n != 1 {
				// call expressions do not print through selName; look for the single comparison of two calls
				n = 0
				ast.Inspect(fd, func(nd ast.Node) bool {
					if be, ok := nd.(*ast.BinaryExpr); ok {
						cx, okx := be.X.(*ast.CallExpr)
						cy, oky := be.Y.(*ast.CallExpr)
						if okx && oky && selName(cx.Fun) == "s.Level" && selName(cy.Fun) == "minSeverity.Level" {
							op = be.Op
							n++
						}
					}
					return true
				})
			}
			s, ok := coqCmp(op)
			if n != 1 || !ok {
				fail("gen_check: comparison in %s.IsAtLeast not found", recv)
				continue
			}
			fmt.Fprintf(&b, "Definition domain_%s_is_at_least (a b : Z) : bool := %s.  (* s.Level() %s minSeverity.Level() *)\n", recv, s, op)
		}

		sevLevel := func(e ast.Expr, tab map[string]int64, what string) int64 {
			n := selName(e)
			n = strings.TrimPrefix(n, "domain.")
			v, ok := tab[n]
			if !ok {
				fail("gen_check: %s = %s is not a known severity constant", what, n)
			}
			return v
		}

		// ---- checkComplexity ------------------------------------------------------------
		fcx := findFunc(cmd, "check.go", "CheckCommand", "checkComplexity")
		if fcx == nil {
			fail("gen_check: checkComplexity not found")
			return
		}
		b.WriteString("\n(* checkComplexity: request literal and the gate comparison *)\n")
		cf := compositeFields(fcx, "domain.ComplexityRequest")
		for _, k := range []string{"MinComplexity", "MaxComplexity"} {
			v, ok := intLit(cf[k])
			if cf == nil || cf[k] == nil || !ok {
				fail("gen_check: ComplexityRequest.%s literal not found in checkComplexity", k)
				continue
			}
			fmt.Fprintf(&b, "Definition check_req_%s : Z := (%d)%%Z.\n", k, v)
		}
		if op, n := findCmp(fcx, "function.Metrics.Complexity", "maxComplexity"); n == 1 {
			s, _ := coqCmp(op)
			fmt.Fprintf(&b, "Definition check_cx_exceeds (a b : Z) : bool := %s.  (* function.Metrics.Complexity %s maxComplexity *)\n", s, op)
		} else {
			fail("gen_check: comparison `function.Metrics.Complexity OP maxComplexity` found %d times in checkComplexity", n)
		}
		if op, n := findCmp(fcx, "response.Request.MaxComplexity", "0"); n == 1 {
			s, _ := coqCmp(op)
			fmt.Fprintf(&b, "Definition check_cfg_max_given (a b : Z) : bool := %s.  (* response.Request.MaxComplexity %s 0 *)\n", s, op)
		} else {
			// rhs is a BasicLit: selName gives "?"; search explicitly
			n = 0
			var op token.Token
			ast.Inspect(fcx, func(nd ast.Node) bool {
				if be, ok := nd.(*ast.BinaryExpr); ok && selName(be.X) == "response.Request.MaxComplexity" {
					if v, ok := intLit(be.Y); ok && v == 0 {
						op = be.Op
						n++
					}
				}
				return true
			})
			s, ok := coqCmp(op)
			if n != 1 || !ok {
				fail("gen_check: comparison `response.Request.MaxComplexity OP 0` not found in checkComplexity")
			} else {
				fmt.Fprintf(&b, "Definition check_cfg_max_given (a b : Z) : bool := %s.  (* response.Request.MaxComplexity %s 0 *)\n", s, op)
			}
		}
		// the flag that is tested with Flags().Changed
		changed := ""
		ast.Inspect(fcx, func(nd ast.Node) bool {
			if ce, ok := nd.(*ast.CallExpr); ok {
				if se, ok := ce.Fun.(*ast.SelectorExpr); ok && se.Sel.Name == "Changed" && len(ce.Args) == 1 {
					if bl, ok := ce.Args[0].(*ast.BasicLit); ok {
						changed, _ = strconv.Unquote(bl.Value)
					}
				}
			}
			return true
		})
		if changed != "max-complexity" {
			fail("gen_check: checkComplexity no longer tests Flags().Changed(\"max-complexity\") (found %q)", changed)
		}

		// ---- checkDeadCode ----------------------------------------------------------------
		fdc := findFunc(cmd, "check.go", "CheckCommand", "checkDeadCode")
		if fdc == nil {
			fail("gen_check: checkDeadCode not found")
			return
		}
		b.WriteString("\n(* checkDeadCode: requested severity, fallback gate severity *)\n")
		df := compositeFields(fdc, "domain.DeadCodeRequest")
		if df == nil || df["MinSeverity"] == nil {
			fail("gen_check: DeadCodeRequest.MinSeverity not found in checkDeadCode")
		} else {
			fmt.Fprintf(&b, "Definition check_req_MinSeverity_level : Z := (%d)%%Z.  (* %s *)\n", sevLevel(df["MinSeverity"], dl, "DeadCodeRequest.MinSeverity"), selName(df["MinSeverity"]))
		}
		var gateDefault ast.Expr
		ast.Inspect(fdc, func(nd ast.Node) bool {
			if as, ok := nd.(*ast.AssignStmt); ok && as.Tok == token.DEFINE && len(as.Lhs) == 1 && len(as.Rhs) == 1 {
				if id, ok := as.Lhs[0].(*ast.Ident); ok && id.Name == "minSeverity" {
					gateDefault = as.Rhs[0]
				}
			}
			return true
		})
		if gateDefault == nil {
			fail("gen_check: `minSeverity := ...` not found in checkDeadCode")
		} else {
			fmt.Fprintf(&b, "Definition check_gate_default_severity_level : Z := (%d)%%Z.  (* %s *)\n", sevLevel(gateDefault, dl, "minSeverity default"), selName(gateDefault))
		}

		// ---- checkMockdata ----------------------------------------------------------------
		fmd := findFunc(cmd, "check.go", "CheckCommand", "checkMockdata")
		if fmd == nil {
			fail("gen_check: checkMockdata not found")
			return
		}
		var mockGate ast.Expr
		ast.Inspect(fmd, func(nd ast.Node) bool {
			if ce, ok := nd.(*ast.CallExpr); ok {
				if se, ok := ce.Fun.(*ast.SelectorExpr); ok && se.Sel.Name == "IsAtLeast" && len(ce.Args) == 1 {
					mockGate = ce.Args[0]
				}
			}
			return true
		})
		if mockGate == nil {
			fail("gen_check: IsAtLeast(...) not found in checkMockdata")
		} else {
			fmt.Fprintf(&b, "\nDefinition check_mock_gate_level : Z := (%d)%%Z.  (* %s *)\n", sevLevel(mockGate, ml, "mock gate"), selName(mockGate))
		}

		// ---- runCheck ---------------------------------------------------------------------
		frc := findFunc(cmd, "check.go", "CheckCommand", "runCheck")
		if frc == nil {
			fail("gen_check: runCheck not found")
			return
		}
		b.WriteString("\n(* runCheck: cycle threshold and final decision *)\n")
		if op, n := findCmp(frc, "depsIssues", "c.maxCycles"); n == 1 {
			s, _ := coqCmp(op)
			fmt.Fprintf(&b, "Definition check_cycles_exceed (a b : Z) : bool := %s.  (* depsIssues %s c.maxCycles *)\n", s, op)
		} else {
			fail("gen_check: comparison `depsIssues OP c.maxCycles` found %d times in runCheck", n)
		}
		{
			n := 0
			var op token.Token
			ast.Inspect(frc, func(nd ast.Node) bool {
				if be, ok := nd.(*ast.BinaryExpr); ok && selName(be.X) == "issueCount" {
					if v, ok := intLit(be.Y); ok && v == 0 {
						op = be.Op
						n++
					}
				}
				return true
			})
			s, ok := coqCmp(op)
			if n != 1 || !ok {
				fail("gen_check: comparison `issueCount OP 0` found %d times in runCheck", n)
			} else {
				fmt.Fprintf(&b, "Definition check_has_issues (a b : Z) : bool := %s.  (* issueCount %s 0 *)\n", s, op)
			}
		}

		// does runCheck resolve the config file from the first target (as analyze does)?
		{
			fromTarget := false
			ast.Inspect(frc, func(nd ast.Node) bool {
				if ce, ok := nd.(*ast.CallExpr); ok {
					if se, ok := ce.Fun.(*ast.SelectorExpr); ok && se.Sel.Name == "ResolveConfigPath" && len(ce.Args) == 2 {
						if selName(ce.Args[0]) == "c.configFile" {
							if ix, ok := ce.Args[1].(*ast.IndexExpr); ok && selName(ix.X) == "args" {
								if v, ok := intLit(ix.Index); ok && v == 0 {
									fromTarget = true
								}
							}
						}
					}
				}
				return true
			})
			fmt.Fprintf(&b, "Definition check_config_from_target : bool := %v.  (* runCheck calls ResolveConfigPath(c.configFile, args[0]) *)\n", fromTarget)
		}

		// ---- merge sentinels in package service ---------------------------------------------
		b.WriteString("\n(* service: MergeConfig sentinels (a request value equal to the sentinel counts as \"not given\") *)\n")
		mc := findFunc(svc, "config_loader.go", "ConfigurationLoaderImpl", "MergeConfig")
		if mc == nil {
			fail("gen_check: ConfigurationLoaderImpl.MergeConfig not found")
		} else {
			for _, k := range []string{"MinComplexity", "MaxComplexity"} {
				n := 0
				var val int64
				ast.Inspect(mc, func(nd ast.Node) bool {
					if is, ok := nd.(*ast.IfStmt); ok {
						if be, ok := is.Cond.(*ast.BinaryExpr); ok && be.Op == token.NEQ && selName(be.X) == "override."+k {
							if v, ok := intLit(be.Y); ok {
								val = v
								n++
							}
						}
					}
					return true
				})
				if n != 1 {
					fail("gen_check: `if override.%s != <literal>` found %d times in MergeConfig", k, n)
				}
				fmt.Fprintf(&b, "Definition svc_merge_sentinel_%s : Z := (%d)%%Z.\n", k, val)
			}
		}
		md := findFunc(svc, "dead_code_config_loader.go", "DeadCodeConfigurationLoaderImpl", "MergeConfig")
		if md == nil {
			fail("gen_check: DeadCodeConfigurationLoaderImpl.MergeConfig not found")
		} else {
			n := 0
			var lvl int64
			ast.Inspect(md, func(nd ast.Node) bool {
				if be, ok := nd.(*ast.BinaryExpr); ok && be.Op == token.NEQ && selName(be.X) == "override.MinSeverity" {
					if _, isSel := be.Y.(*ast.SelectorExpr); isSel {
						lvl = sevLevel(be.Y, dl, "MinSeverity merge sentinel")
						n++
					}
				}
				return true
			})
			if n != 1 {
				fail("gen_check: `override.MinSeverity != domain.<const>` found %d times in dead-code MergeConfig", n)
			}
			fmt.Fprintf(&b, "Definition svc_merge_sentinel_MinSeverity_level : Z := (%d)%%Z.\n", lvl)
		}

		// ---- exit code ----------------------------------------------------------------------
		fm := findFunc(cmd, "main.go", "", "main")
		if fm == nil {
			fail("gen_check: main.main not found")
		} else {
			n := 0
			var code int64
			ast.Inspect(fm, func(nd ast.Node) bool {
				if ce, ok := nd.(*ast.CallExpr); ok && selName(ce.Fun) == "os.Exit" && len(ce.Args) == 1 {
					if v, ok := intLit(ce.Args[0]); ok {
						code = v
						n++
					}
				}
				return true
			})
			if n != 1 {
				fail("gen_check: os.Exit(<literal>) found %d times in main()", n)
			}
			fmt.Fprintf(&b, "\nDefinition check_exit_failure : Z := (%d)%%Z.  (* main.go: os.Exit when the command returns an error *)\n", code)
		}

		writeGen("CheckConst.v", b.String())

		for _, f := range []string{"runCheck", "determineEnabledAnalyses", "containsAnalysis", "validateSelectedAnalyses",
			"checkComplexity", "checkDeadCode", "checkClones", "checkCircularDependencies", "checkMockdata", "CreateCobraCommand"} {
			recordDigest(cmd, "check.go", "CheckCommand", f)
		}
		recordDigest(cmd, "main.go", "", "main")
		recordDigest(svc, "config_loader.go", "ConfigurationLoaderImpl", "MergeConfig")
		recordDigest(svc, "config_loader.go", "ConfigurationLoaderImpl", "LoadDefaultConfig")
		recordDigest(svc, "dead_code_config_loader.go", "DeadCodeConfigurationLoaderImpl", "MergeConfig")
		recordDigest(svc, "dead_code_config_loader.go", "DeadCodeConfigurationLoaderImpl", "configToRequest")
		recordDigest(svc, "complexity_service.go", "ComplexityServiceImpl", "filterFunctions")
		recordDigest(svc, "dead_code_service.go", "DeadCodeServiceImpl", "filterFindingsBySeverity")
		recordDigest(dom, "dead_code.go", "DeadCodeSeverity", "Level")
		recordDigest(dom, "dead_code.go", "DeadCodeSeverity", "IsAtLeast")
		cfgp := loadPkg("internal/config")
		if cfgp != nil {
			recordDigest(cfgp, "config.go", "", "PyscnConfigToConfig")
			recordDigest(cfgp, "toml_loader.go", "TomlConfigLoader", "ResolveConfigPath")
			recordDigest(cfgp, "toml_loader.go", "TomlConfigLoader", "FindConfigFileFromPath")
		}
	})
}
