package main

import "strings"

func init() {
	generators = append(generators, func() {
		p := loadPkg("domain")
		var b strings.Builder
		n := emitConsts(&b, p, "domain")
		if n == 0 {
			fail("no constants extracted from domain")
		}
		writeGen("DomainConst.v", b.String())
		for _, f := range []string{"calculateComplexityPenalty", "calculateDeadCodePenalty", "calculateDuplicationPenalty",
			"calculateCouplingPenalty", "calculateCohesionPenalty", "calculateDependencyPenalty",
			"calculateArchitecturePenalty", "CalculateHealthScore", "Validate", "CalculateFallbackScore"} {
			recordDigest(p, "analyze.go", "AnalyzeSummary", f)
		}
		for _, f := range []string{"normalizeToScoreBase", "penaltyToScore", "GetGradeFromScore"} {
			recordDigest(p, "analyze.go", "", f)
		}
	})
}
