package main

import (
	"fmt"
	"go/ast"
	"go/token"
	"strings"
)

// Constants of the grouping strategies (internal/analyzer/*_grouping.go) used by the
// Coq models in coq/Clone/Group*.v, and digests of every function those models mirror.
func init() {
	generators = append(generators, func() {
		p := loadPkg("internal/analyzer")
		if p == nil {
			return
		}
		var b strings.Builder
		b.WriteString("(* constants of internal/analyzer/{star_medoid,k_core}_grouping.go *)\n")

		// NewStarMedoidGrouping: composite literal fields maxIterations, noChangeLimit
		if fd := findFunc(p, "star_medoid_grouping.go", "", "NewStarMedoidGrouping"); fd != nil {
			found := map[string]string{}
			ast.Inspect(fd, func(n ast.Node) bool {
				kv, ok := n.(*ast.KeyValueExpr)
				if !ok {
					return true
				}
				k, ok1 := kv.Key.(*ast.Ident)
				v, ok2 := kv.Value.(*ast.BasicLit)
				if ok1 && ok2 && v.Kind == token.INT {
					found[k.Name] = v.Value
				}
				return true
			})
			for _, name := range []string{"maxIterations", "noChangeLimit"} {
				if v, ok := found[name]; ok {
					fmt.Fprintf(&b, "Definition clone_star_%s : Z := (%s)%%Z.\n", name, v)
				} else {
					fail("NewStarMedoidGrouping: literal field %s not found", name)
				}
			}
		} else {
			fail("function not found: NewStarMedoidGrouping")
		}

		// NewKCoreGrouping: `if k < C { k = C }`
		if fd := findFunc(p, "k_core_grouping.go", "", "NewKCoreGrouping"); fd != nil {
			ok := false
			ast.Inspect(fd, func(n ast.Node) bool {
				ifs, isIf := n.(*ast.IfStmt)
				if !isIf {
					return true
				}
				be, isB := ifs.Cond.(*ast.BinaryExpr)
				if !isB || be.Op != token.LSS {
					return true
				}
				lit, isL := be.Y.(*ast.BasicLit)
				if !isL || lit.Kind != token.INT || len(ifs.Body.List) != 1 {
					return true
				}
				as, isA := ifs.Body.List[0].(*ast.AssignStmt)
				if !isA || len(as.Rhs) != 1 {
					return true
				}
				rl, isR := as.Rhs[0].(*ast.BasicLit)
				if isR && rl.Value == lit.Value {
					fmt.Fprintf(&b, "Definition clone_kcore_minK : Z := (%s)%%Z.\n", lit.Value)
					ok = true
				}
				return true
			})
			if !ok {
				fail("NewKCoreGrouping: `if k < C { k = C }` not found")
			}
		} else {
			fail("function not found: NewKCoreGrouping")
		}

		// the comparison operators the models rely on: `p.Similarity >= <recv>.threshold`
		// must occur in connected and k-core GroupClones, `< c.threshold` / `>= s.threshold`
		// in complete linkage / star. Recorded as text so that a changed operator is visible
		// in the digest; the correspondence check is what actually detects it.
		writeGen("GroupConst.v", b.String())

		recordDigest(p, "connected_grouping.go", "ConnectedGrouping", "GroupClones")
		recordDigest(p, "complete_linkage_grouping.go", "CompleteLinkageGrouping", "GroupClones")
		recordDigest(p, "k_core_grouping.go", "KCoreGrouping", "GroupClones")
		recordDigest(p, "k_core_grouping.go", "", "NewKCoreGrouping")
		recordDigest(p, "star_medoid_grouping.go", "StarMedoidGrouping", "GroupClones")
		recordDigest(p, "star_medoid_grouping.go", "StarMedoidGrouping", "findMedoid")
		recordDigest(p, "star_medoid_grouping.go", "StarMedoidGrouping", "collectFragments")
		recordDigest(p, "star_medoid_grouping.go", "StarMedoidGrouping", "buildSimilarityMap")
		recordDigest(p, "star_medoid_grouping.go", "", "NewStarMedoidGrouping")
		for _, f := range []string{"similarity", "pairKey", "fragmentID", "fragmentLess", "almostEqual"} {
			recordDigest(p, "star_medoid_grouping.go", "", f)
		}
		recordDigest(p, "grouping_mode.go", "", "CreateGroupingStrategy")
	})
}
