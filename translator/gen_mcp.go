package main

import (
	"fmt"
	"go/ast"
	"go/constant"
	"go/token"
	"sort"
	"strings"
)

// callStringArgs collects, in source order, the string literals passed as argument number argIdx to calls of
// the function/method named callee inside fd.
func callStringArgs(fd *ast.FuncDecl, callee string, argIdx int) []string {
	var out []string
	if fd == nil {
		return out
	}
	ast.Inspect(fd, func(n ast.Node) bool {
		call, ok := n.(*ast.CallExpr)
		if !ok {
			return true
		}
		name := ""
		switch f := call.Fun.(type) {
		case *ast.Ident:
			name = f.Name
		case *ast.SelectorExpr:
			name = f.Sel.Name
		}
		if name == callee && len(call.Args) > argIdx {
			if lit, ok := call.Args[argIdx].(*ast.BasicLit); ok && lit.Kind == token.STRING {
				out = append(out, strings.Trim(lit.Value, "\"`"))
			}
		}
		return true
	})
	return out
}

// compositeField finds `Field: <expr>` inside the first composite literal of type named typ in fd.
func compositeField(fd *ast.FuncDecl, typ, field string) ast.Expr {
	var res ast.Expr
	if fd == nil {
		return nil
	}
	ast.Inspect(fd, func(n ast.Node) bool {
		cl, ok := n.(*ast.CompositeLit)
		if !ok || res != nil {
			return res == nil
		}
		tn := ""
		switch t := cl.Type.(type) {
		case *ast.Ident:
			tn = t.Name
		case *ast.SelectorExpr:
			tn = t.Sel.Name
		}
		if tn != typ {
			return true
		}
		for _, e := range cl.Elts {
			if kv, ok := e.(*ast.KeyValueExpr); ok {
				if id, ok := kv.Key.(*ast.Ident); ok && id.Name == field {
					res = kv.Value
				}
			}
		}
		return true
	})
	return res
}

func coqStringList(xs []string) string {
	q := make([]string, len(xs))
	for i, x := range xs {
		q[i] = fmt.Sprintf("%q%%string", x)
	}
	return "[" + strings.Join(q, "; ") + "]"
}

// flagDefault finds the default value (argument 2) of the cobra flag registered under the given name in fd.
func flagDefault(fd *ast.FuncDecl, flag string) ast.Expr {
	var res ast.Expr
	if fd == nil {
		return nil
	}
	ast.Inspect(fd, func(n ast.Node) bool {
		call, ok := n.(*ast.CallExpr)
		if !ok || len(call.Args) < 3 {
			return true
		}
		for i, a := range call.Args {
			if lit, ok := a.(*ast.BasicLit); ok && lit.Kind == token.STRING && strings.Trim(lit.Value, "\"") == flag && i+1 < len(call.Args) {
				// VarP variants carry a shorthand string between the name and the default
				nxt := call.Args[i+1]
				if l2, ok := nxt.(*ast.BasicLit); ok && l2.Kind == token.STRING && i+2 < len(call.Args) && len(strings.Trim(l2.Value, "\"")) <= 1 {
					nxt = call.Args[i+2]
				}
				if res == nil {
					res = nxt
				}
			}
		}
		return true
	})
	return res
}

func mcpLitQ(e ast.Expr) (string, bool) {
	lit, ok := e.(*ast.BasicLit)
	if !ok || (lit.Kind != token.FLOAT && lit.Kind != token.INT) {
		return "", false
	}
	return coqQ(constant.MakeFromLiteral(lit.Value, lit.Kind, 0))
}

func mcpLitZ(e ast.Expr) (string, bool) {
	lit, ok := e.(*ast.BasicLit)
	if !ok || lit.Kind != token.INT {
		return "", false
	}
	return coqZ(constant.MakeFromLiteral(lit.Value, lit.Kind, 0))
}

func init() {
	generators = append(generators, func() {
		m := loadPkg("mcp")
		c := loadPkg("cmd/pyscn")
		var b strings.Builder
		h := findFunc(m, "handlers.go", "HandlerSet", "HandleAnalyzeCode")
		if h == nil {
			fail("mcp: HandleAnalyzeCode not found")
			return
		}
		names := callStringArgs(h, "contains", 1)
		if len(names) != 6 {
			fail("mcp: expected 6 contains(analyses, \"..\") tests in HandleAnalyzeCode, found %v", names)
		}
		fmt.Fprintf(&b, "Definition mcp_analysis_names : list string := %s.\n", coqStringList(names))
		if s, ok := mcpLitZ(compositeField(h, "AnalyzeUseCaseConfig", "MinComplexity")); ok {
			fmt.Fprintf(&b, "Definition mcp_MinComplexity : Z := %s.\n", s)
		} else {
			fail("mcp: MinComplexity literal not found")
		}
		if s, ok := mcpLitQ(compositeField(h, "AnalyzeUseCaseConfig", "CloneSimilarity")); ok {
			fmt.Fprintf(&b, "Definition mcp_CloneSimilarity : Q := %s.\n", s)
		} else {
			fail("mcp: CloneSimilarity literal not found")
		}
		if sel, ok := compositeField(h, "AnalyzeUseCaseConfig", "MinSeverity").(*ast.SelectorExpr); ok {
			fmt.Fprintf(&b, "Definition mcp_MinSeverity : string := %q%%string.\n", sel.Sel.Name)
		} else {
			fail("mcp: MinSeverity selector not found")
		}
		cu := findFunc(c, "analyze.go", "AnalyzeCommand", "createUseCaseConfig")
		cnames := callStringArgs(cu, "containsAnalysis", 0)
		if len(cnames) != 6 {
			fail("cli: expected 6 containsAnalysis(\"..\") tests in createUseCaseConfig, found %v", cnames)
		}
		fmt.Fprintf(&b, "Definition cli_analysis_names : list string := %s.\n", coqStringList(cnames))
		nf := findFunc(c, "analyze.go", "AnalyzeCommand", "CreateCobraCommand")
		if s, ok := mcpLitZ(flagDefault(nf, "min-complexity")); ok {
			fmt.Fprintf(&b, "Definition cli_default_min_complexity : Z := %s.\n", s)
		} else {
			fail("cli: --min-complexity default not found")
		}
		if s, ok := mcpLitQ(flagDefault(nf, "clone-threshold")); ok {
			fmt.Fprintf(&b, "Definition cli_default_clone_threshold : Q := %s.\n", s)
		} else {
			fail("cli: --clone-threshold default not found")
		}
		if lit, ok := flagDefault(nf, "min-severity").(*ast.BasicLit); ok {
			fmt.Fprintf(&b, "Definition cli_default_min_severity : string := %s%%string.\n", lit.Value)
		} else {
			fail("cli: --min-severity default not found")
		}
		// the single-analysis tools: which configuration section their include / exclude patterns are read from
		// (`pyscn analyze` selects the files with [analysis]: app/analyze_usecase.go getFilePatterns, tied in gen_files.go)
		var srcRows []string
		for _, tool := range [][2]string{{"check_complexity", "HandleCheckComplexity"}, {"detect_clones", "HandleDetectClones"},
			{"check_coupling", "HandleCheckCoupling"}, {"check_cohesion", "HandleCheckCohesion"}, {"find_dead_code", "HandleFindDeadCode"}} {
			fd := findFunc(m, "handlers.go", "HandlerSet", tool[1])
			if fd == nil {
				fail("mcp: %s not found", tool[1])
				continue
			}
			seen := map[string]bool{}
			var srcs []string
			ast.Inspect(fd, func(nd ast.Node) bool {
				se, ok := nd.(*ast.SelectorExpr)
				if !ok {
					return true
				}
				n := selName(se)
				if strings.HasPrefix(n, "cfg.") && (strings.HasSuffix(n, ".IncludePatterns") || strings.HasSuffix(n, ".ExcludePatterns")) && !seen[n] {
					seen[n] = true
					srcs = append(srcs, n)
				}
				return true
			})
			sort.Strings(srcs)
			srcRows = append(srcRows, fmt.Sprintf("(%q%%string, %s)", tool[0], coqStringList(srcs)))
			recordDigest(m, "handlers.go", "HandlerSet", tool[1])
		}
		fmt.Fprintf(&b, "\n(* mcp/handlers.go: the configuration fields each single-analysis tool reads its include / exclude patterns from *)\n")
		fmt.Fprintf(&b, "Definition mcp_tool_pattern_sources : list (string * list string) :=\n  [%s].\n", strings.Join(srcRows, ";\n   "))
		writeGen("McpConst.v", b.String())
		recordDigest(m, "handlers.go", "HandlerSet", "HandleAnalyzeCode")
		recordDigest(c, "analyze.go", "AnalyzeCommand", "createUseCaseConfig")
		a := loadPkg("app")
		recordDigest(a, "analyze_usecase.go", "AnalyzeUseCase", "Execute")
		recordDigest(a, "analyze_usecase.go", "AnalyzeUseCase", "buildResponse")
		recordDigest(a, "analyze_usecase.go", "AnalyzeUseCase", "createAnalysisTasks")
	})
}
