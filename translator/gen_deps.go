package main

// Generator for coq/Gen/DepsConst.v: the decision expressions of
// internal/analyzer/circular_detector.go that the model Deps/Tarjan.v uses
// (component-size filter, severity table, fan-in threshold), translated
// expression by expression, plus digests of the modelled functions.

import (
	"fmt"
	"go/ast"
	"go/token"
	"strings"
)

var depsOps = map[token.Token]string{
	token.GTR: ">?", token.GEQ: ">=?", token.LSS: "<?", token.LEQ: "<=?", token.EQL: "=?",
	token.LOR: "||", token.LAND: "&&",
}

// depsExpr renders a Go boolean/integer expression over int variables as a Coq term over Z/bool.
func depsExpr(e ast.Expr) (string, bool) {
	switch x := e.(type) {
	case *ast.ParenExpr:
		return depsExpr(x.X)
	case *ast.BasicLit:
		if x.Kind == token.INT {
			return x.Value, true
		}
	case *ast.Ident:
		return x.Name, true
	case *ast.SelectorExpr:
		// node.InDegree, cycle.Size -> field name with lower-case initial
		n := x.Sel.Name
		return strings.ToLower(n[:1]) + n[1:], true
	case *ast.CallExpr:
		if id, ok := x.Fun.(*ast.Ident); ok && id.Name == "len" && len(x.Args) == 1 {
			if a, ok := depsExpr(x.Args[0]); ok {
				return "len_" + a, true
			}
		}
	case *ast.BinaryExpr:
		op, ok := depsOps[x.Op]
		if !ok {
			return "", false
		}
		l, ok1 := depsExpr(x.X)
		r, ok2 := depsExpr(x.Y)
		if ok1 && ok2 {
			return "(" + l + " " + op + " " + r + ")", true
		}
	}
	return "", false
}

func mentions(e ast.Node, name string) bool {
	found := false
	ast.Inspect(e, func(n ast.Node) bool {
		switch x := n.(type) {
		case *ast.Ident:
			if x.Name == name {
				found = true
			}
		}
		return !found
	})
	return found
}

func init() {
	generators = append(generators, func() {
		p := loadPkg("internal/analyzer")
		if p == nil {
			return
		}
		const file = "circular_detector.go"
		var b strings.Builder
		b.WriteString("(* from internal/analyzer/circular_detector.go *)\n")

		// severityOrder: name -> code
		sevCode := map[string]string{}
		if fd := findFunc(p, file, "CircularDependencyDetector", "severityOrder"); fd != nil {
			ast.Inspect(fd.Body, func(n ast.Node) bool {
				cc, ok := n.(*ast.CaseClause)
				if !ok || len(cc.List) != 1 || len(cc.Body) != 1 {
					return true
				}
				id, ok1 := cc.List[0].(*ast.Ident)
				ret, ok2 := cc.Body[0].(*ast.ReturnStmt)
				if ok1 && ok2 && len(ret.Results) == 1 {
					if v, ok := depsExpr(ret.Results[0]); ok {
						sevCode[id.Name] = v
					}
				}
				return true
			})
		}
		for _, n := range []string{"CycleSeverityLow", "CycleSeverityMedium", "CycleSeverityHigh", "CycleSeverityCritical"} {
			if _, ok := sevCode[n]; !ok {
				fail("severityOrder: no case for %s", n)
				sevCode[n] = "0"
			}
			fmt.Fprintf(&b, "Definition circ_%s : Z := %s.\n", n, sevCode[n])
		}

		// strongConnect: the "keep this component" test on len(component)
		if fd := findFunc(p, file, "CircularDependencyDetector", "strongConnect"); fd != nil {
			var conds []string
			ast.Inspect(fd.Body, func(n ast.Node) bool {
				if is, ok := n.(*ast.IfStmt); ok && is.Init == nil && mentions(is.Cond, "len") && mentions(is.Cond, "component") {
					if s, ok := depsExpr(is.Cond); ok {
						conds = append(conds, s)
					}
				}
				return true
			})
			if len(conds) != 1 {
				fail("strongConnect: expected exactly one test on len(component), found %d", len(conds))
			} else {
				fmt.Fprintf(&b, "Definition circ_keep_component (len_component : Z) : bool := %s.\n", conds[0])
			}
			// operands of the two low-link updates
			var args []string
			ast.Inspect(fd.Body, func(n ast.Node) bool {
				if c, ok := n.(*ast.CallExpr); ok {
					if id, ok := c.Fun.(*ast.Ident); ok && id.Name == "minLowLink" && len(c.Args) == 2 {
						args = append(args, src(p, c.Args[0])+" | "+src(p, c.Args[1]))
					}
				}
				return true
			})
			want := []string{"cdd.lowLinks[module] | cdd.lowLinks[dependency]", "cdd.lowLinks[module] | cdd.indices[dependency]"}
			if len(args) != 2 || args[0] != want[0] || args[1] != want[1] {
				fail("strongConnect: low-link updates no longer have the modelled operands: %v", args)
			}
		}

		// processComponents: the "skip" test
		if fd := findFunc(p, file, "CircularDependencyDetector", "processComponents"); fd != nil {
			var conds []string
			ast.Inspect(fd.Body, func(n ast.Node) bool {
				if is, ok := n.(*ast.IfStmt); ok && is.Init == nil && mentions(is.Cond, "len") && mentions(is.Cond, "component") {
					if s, ok := depsExpr(is.Cond); ok {
						conds = append(conds, s)
					}
				}
				return true
			})
			if len(conds) != 1 {
				fail("processComponents: expected exactly one test on len(component), found %d", len(conds))
			} else {
				fmt.Fprintf(&b, "Definition circ_skip_component (len_component : Z) : bool := %s.\n", conds[0])
			}
		}

		// assessCycleSeverity: fan-in test and the if/else-if chain on size
		if fd := findFunc(p, file, "CircularDependencyDetector", "assessCycleSeverity"); fd != nil {
			core := ""
			ast.Inspect(fd.Body, func(n ast.Node) bool {
				if is, ok := n.(*ast.IfStmt); ok && is.Init == nil && mentions(is.Cond, "InDegree") {
					if s, ok := depsExpr(is.Cond); ok {
						core = s
					}
				}
				return true
			})
			if core == "" {
				fail("assessCycleSeverity: fan-in test not found")
			} else {
				fmt.Fprintf(&b, "Definition circ_is_core (inDegree : Z) : bool := %s.\n", core)
			}
			var chain strings.Builder
			ok := false
			for i, st := range fd.Body.List {
				is, isIf := st.(*ast.IfStmt)
				if !isIf || !mentions(is.Cond, "size") {
					continue
				}
				ok = true
				cur := is
				for cur != nil {
					c, okc := depsExpr(cur.Cond)
					if !okc || len(cur.Body.List) != 1 {
						ok = false
						break
					}
					ret, okr := cur.Body.List[0].(*ast.ReturnStmt)
					if !okr || len(ret.Results) != 1 {
						ok = false
						break
					}
					id, oki := ret.Results[0].(*ast.Ident)
					if !oki || sevCode[id.Name] == "" {
						ok = false
						break
					}
					fmt.Fprintf(&chain, "if %s then circ_%s else ", c, id.Name)
					switch e := cur.Else.(type) {
					case *ast.IfStmt:
						cur = e
					case nil:
						cur = nil
					default:
						ok = false
						cur = nil
					}
				}
				// trailing return
				if ok && i+1 < len(fd.Body.List) {
					if ret, okr := fd.Body.List[len(fd.Body.List)-1].(*ast.ReturnStmt); okr && len(ret.Results) == 1 {
						if id, oki := ret.Results[0].(*ast.Ident); oki && sevCode[id.Name] != "" {
							fmt.Fprintf(&chain, "circ_%s", id.Name)
						} else {
							ok = false
						}
					} else {
						ok = false
					}
				} else {
					ok = false
				}
				break
			}
			if !ok {
				fail("assessCycleSeverity: if/else-if chain on size no longer has the modelled shape")
			} else {
				fmt.Fprintf(&b, "Definition circ_assess (hasCore : bool) (size : Z) : Z := %s.\n", chain.String())
			}
		}

		writeGen("DepsConst.v", b.String())
		for _, f := range []string{"DetectCircularDependencies", "resetState", "findStronglyConnectedComponents", "strongConnect",
			"processComponents", "assessCycleSeverity", "calculateStatistics", "updateGraphWithCycles", "severityOrder"} {
			recordDigest(p, file, "CircularDependencyDetector", f)
		}
		recordDigest(p, file, "", "minLowLink")
		recordDigest(p, "dependency_graph.go", "DependencyGraph", "AddModule")
		recordDigest(p, "dependency_graph.go", "DependencyGraph", "AddDependency")
	})
}
