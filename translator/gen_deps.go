package main

// Generator for coq/Gen/DepsConst.v: the decision expressions of
// internal/analyzer/circular_detector.go that the model Deps/Tarjan.v uses
// (component-size filter, severity table, fan-in threshold), translated
// expression by expression, plus digests of the modelled functions.

import (
	"fmt"
	"go/ast"
	"go/token"
	"go/types"
	"strings"
)

var depsOps = map[token.Token]string{
	token.GTR: ">?", token.GEQ: ">=?", token.LSS: "<?", token.LEQ: "<=?", token.EQL: "=?",
	token.LOR: "||", token.LAND: "&&",
}

// depsExpr renders a Go boolean/integer expression over int variables as a Coq term over Z/bool.
func depsExpr(e ast.Expr) (string, bool) {
	switch x := e.(type) {
	case *ast.ParenExpr:
		return depsExpr(x.X)
	case *ast.BasicLit:
		if x.Kind == token.INT {
			return x.Value, true
		}
	case *ast.Ident:
		return x.Name, true
	case *ast.SelectorExpr:
		// node.InDegree, cycle.Size -> field name with lower-case initial
		n := x.Sel.Name
		return strings.ToLower(n[:1]) + n[1:], true
	case *ast.CallExpr:
		if id, ok := x.Fun.(*ast.Ident); ok && id.Name == "len" && len(x.Args) == 1 {
			if a, ok := depsExpr(x.Args[0]); ok {
				return "len_" + a, true
			}
		}
	case *ast.BinaryExpr:
		op, ok := depsOps[x.Op]
		if !ok {
			return "", false
		}
		l, ok1 := depsExpr(x.X)
		r, ok2 := depsExpr(x.Y)
		if ok1 && ok2 {
			return "(" + l + " " + op + " " + r + ")", true
		}
	}
	return "", false
}

func mentions(e ast.Node, name string) bool {
	found := false
	ast.Inspect(e, func(n ast.Node) bool {
		switch x := n.(type) {
		case *ast.Ident:
			if x.Name == name {
				found = true
			}
		}
		return !found
	})
	return found
}

// stepChain renders a piecewise-constant function of `v` (sampled at the ascending points xs, values vals[i] named by
// name()) as `if (v >=? b_k) then n_k else if (v >=? b_{k-1}) then ... else n_0`, highest boundary first.
type stepSeg struct {
	from int64 // first sampled point of the segment
	val  string
}

func stepSegments(xs []int64, vals []string) []stepSeg {
	var segs []stepSeg
	for i, x := range xs {
		if i == 0 || vals[i] != vals[i-1] {
			segs = append(segs, stepSeg{x, vals[i]})
		}
	}
	return segs
}

func stepChain(v string, segs []stepSeg, name func(string) string) string {
	var sb strings.Builder
	for i := len(segs) - 1; i >= 1; i-- {
		fmt.Fprintf(&sb, "if (%s >=? %d) then %s else ", v, segs[i].from, name(segs[i].val))
	}
	sb.WriteString(name(segs[0].val))
	return sb.String()
}

func init() {
	generators = append(generators, func() {
		p := loadPkg("internal/analyzer")
		if p == nil {
			return
		}
		const file = "circular_detector.go"
		const recv = "CircularDependencyDetector"
		var b, tb strings.Builder
		b.WriteString("(* from internal/analyzer/circular_detector.go; decision logic read by evaluation (translator/goeval.go) *)\n")
		in := newInterp(p)
		sevNames := []string{"CycleSeverityLow", "CycleSeverityMedium", "CycleSeverityHigh", "CycleSeverityCritical"}

		// a detector over a graph whose module i (named m<i>) has the given in-degree (nil entry = module unknown to the graph)
		detector := func(degs []*int64, components *Slice) (*Struct, *Slice) {
			nodes := &Map{M: map[interface{}]Value{}}
			mods := &Slice{}
			for i, d := range degs {
				name := fmt.Sprintf("m%02d", i)
				mods.E = append(mods.E, name)
				if d != nil {
					nodes.M[name] = mkStruct("ModuleNode", "Name", name, "InDegree", *d, "Dependencies", &Map{M: map[interface{}]Value{}})
				}
			}
			cdd := mkStruct(recv, "graph", mkStruct("DependencyGraph", "Nodes", nodes), "index", int64(0), "stack", nil,
				"inStack", &Map{M: map[interface{}]Value{}}, "indices", &Map{M: map[interface{}]Value{}}, "lowLinks", &Map{M: map[interface{}]Value{}},
				"components", components)
			return cdd, mods
		}
		deg := func(d int64) *int64 { return &d }

		// ---- severityOrder: constant -> code -----------------------------------------------------------
		sevCode := map[string]int64{}   // constant name -> code
		codeName := map[string]string{} // severity string value -> constant name
		if fd := findFunc(p, file, recv, "severityOrder"); fd == nil {
			fail("severityOrder: function not found")
		} else {
			cdd, _ := detector(nil, nil)
			for _, n := range sevNames {
				c, _ := p.pkg.Scope().Lookup(n).(*types.Const)
				if c == nil {
					fail("severityOrder: constant %s not found", n)
					continue
				}
				cv, _ := constToValue(c.Val(), c.Type())
				code, err := asInt(in.call1(p, fd, cdd, cv))
				if err != nil {
					fail("severityOrder: cannot be evaluated on %s: %v", n, err)
					continue
				}
				sevCode[n] = code
				if s, ok := cv.(string); ok {
					codeName[s] = n
				}
			}
		}
		for _, n := range sevNames {
			fmt.Fprintf(&b, "Definition circ_%s : Z := %d.\n", n, sevCode[n])
		}

		// ---- strongConnect: which component sizes are recorded (run on a ring of k modules) -------------
		if fd := findFunc(p, file, recv, "strongConnect"); fd != nil {
			kept := map[int64]bool{}
			ok := true
			for k := int64(1); k <= 6 && ok; k++ {
				degs := make([]*int64, k)
				for i := range degs {
					degs[i] = deg(1)
				}
				cdd, mods := detector(degs, nil)
				nodes := cdd.F["graph"].(*Struct).F["Nodes"].(*Map)
				if k > 1 {
					for i := int64(0); i < k; i++ {
						nodes.M[mods.E[i]].(*Struct).F["Dependencies"].(*Map).M[mods.E[(i+1)%k]] = true
					}
				}
				if _, err := in.CallFunc(p, fd, cdd, mods.E[0]); err != nil {
					fail("strongConnect: cannot be evaluated on a ring of %d modules: %v", k, err)
					ok = false
					break
				}
				comps, _ := cdd.F["components"].(*Slice)
				n := 0
				if comps != nil {
					n = len(comps.E)
					if n == 1 {
						if c, _ := comps.E[0].(*Slice); c == nil || int64(len(c.E)) != k {
							fail("strongConnect: a ring of %d modules gives a component of another size", k)
							ok = false
						}
					}
				}
				if n > 1 {
					fail("strongConnect: a ring of %d modules gives %d components", k, n)
					ok = false
				}
				kept[k] = n == 1
			}
			if ok {
				first := int64(0)
				for k := int64(1); k <= 6; k++ {
					if kept[k] && first == 0 {
						first = k
					}
					if first != 0 && !kept[k] {
						fail("strongConnect: the component-size test is not a lower bound (size %d kept, size %d dropped)", first, k)
						ok = false
					}
				}
				if ok && first == 0 {
					fail("strongConnect: no component of size 1..6 is recorded")
				} else if ok {
					fmt.Fprintf(&b, "Definition circ_keep_component (len_component : Z) : bool := (len_component >? %d).\n", first-1)
				}
			}
			// operands of the two low-link updates
			var args []string
			ast.Inspect(fd.Body, func(n ast.Node) bool {
				if c, ok := n.(*ast.CallExpr); ok {
					if id, ok := c.Fun.(*ast.Ident); ok && id.Name == "minLowLink" && len(c.Args) == 2 {
						args = append(args, src(p, c.Args[0])+" | "+src(p, c.Args[1]))
					}
				}
				return true
			})
			want := []string{"cdd.lowLinks[module] | cdd.lowLinks[dependency]", "cdd.lowLinks[module] | cdd.indices[dependency]"}
			if len(args) != 2 || args[0] != want[0] || args[1] != want[1] {
				fail("strongConnect: low-link updates no longer have the modelled operands: %v", args)
			}
		} else {
			fail("strongConnect: function not found")
		}

		// the helpers of processComponents that do not take part in the decisions are stubbed; the sort is left out
		in.Extern = func(c *CallCtx) ([]Value, bool) {
			switch c.Name {
			case "cdd.findDependencyChains":
				return []Value{nil}, true
			case "cdd.generateCycleDescription":
				return []Value{""}, true
			case "sort.Slice", "sort.SliceStable":
				return nil, true
			}
			return nil, false
		}

		// ---- processComponents: which component sizes are skipped -----------------------------------------
		if fd := findFunc(p, file, recv, "processComponents"); fd != nil {
			skipped := map[int64]bool{}
			ok := true
			for k := int64(0); k <= 6 && ok; k++ {
				degs := make([]*int64, k)
				for i := range degs {
					degs[i] = deg(0)
				}
				cdd, mods := detector(degs, nil)
				cdd.F["components"] = mkSlice(mods)
				v, err := in.call1(p, fd, cdd)
				if err != nil {
					fail("processComponents: cannot be evaluated on a component of %d modules: %v", k, err)
					ok = false
					break
				}
				n := 0
				if s, _ := v.(*Slice); s != nil {
					n = len(s.E)
				}
				skipped[k] = n == 0
			}
			if ok {
				last := int64(-1)
				for k := int64(0); k <= 6; k++ {
					if skipped[k] {
						if last != k-1 {
							fail("processComponents: the skip test is not an upper bound on the component size")
							ok = false
						}
						last = k
					}
				}
				if ok {
					fmt.Fprintf(&b, "Definition circ_skip_component (len_component : Z) : bool := (len_component <=? %d).\n", last)
				}
			}
		} else {
			fail("processComponents: function not found")
		}

		// ---- assessCycleSeverity -----------------------------------------------------------------------------
		if fd := findFunc(p, file, recv, "assessCycleSeverity"); fd != nil {
			bad := false
			assess := func(size int64, degs []*int64) string {
				cdd, mods := detector(degs, nil)
				s, err := asString(in.call1(p, fd, cdd, mkStruct("CircularDependency", "Modules", mods, "Size", size)))
				if err != nil {
					if !bad {
						fail("assessCycleSeverity: cannot be evaluated: %v", err)
					}
					bad = true
					return ""
				}
				if _, known := codeName[s]; !known && !bad {
					fail("assessCycleSeverity: returns %q, which is not one of the CycleSeverity constants", s)
					bad = true
				}
				return s
			}
			name := func(s string) string { return "circ_" + codeName[s] }
			var scan []int64
			for d := int64(-2); d <= 40; d++ {
				scan = append(scan, d)
			}
			scan = append(scan, 100, 1000, 1000000)
			// fan-in: smallest cycle size, one module of in-degree d
			base := assess(2, []*int64{nil})
			var coreVals []string
			for _, d := range scan {
				if assess(2, []*int64{deg(d)}) != base {
					coreVals = append(coreVals, "core")
				} else {
					coreVals = append(coreVals, "plain")
				}
			}
			coreFrom := int64(0)
			if !bad {
				segs := stepSegments(scan, coreVals)
				if len(segs) == 2 && segs[0].val == "plain" {
					coreFrom = segs[1].from
					fmt.Fprintf(&b, "Definition circ_is_core (inDegree : Z) : bool := (inDegree >? %d).\n", coreFrom-1)
				} else {
					fail("assessCycleSeverity: the fan-in test is not a single lower bound on InDegree (on a 2-module cycle)")
					bad = true
				}
			}
			if !bad {
				var plain, core []string
				for _, s := range scan {
					plain = append(plain, assess(s, []*int64{deg(coreFrom - 1)}))
					core = append(core, assess(s, []*int64{deg(coreFrom)}))
				}
				ps, cs := stepSegments(scan, plain), stepSegments(scan, core)
				if !bad {
					if len(cs) == 1 && len(ps) >= 2 && ps[len(ps)-1].val == cs[0].val {
						// `hasCore || size >= T` decides the top level, then a chain on size
						top := ps[len(ps)-1]
						fmt.Fprintf(&b, "Definition circ_assess (hasCore : bool) (size : Z) : Z := if (hasCore || (size >=? %d)) then %s else %s.\n",
							top.from, name(top.val), stepChain("size", ps[:len(ps)-1], name))
					} else {
						fmt.Fprintf(&b, "Definition circ_assess (hasCore : bool) (size : Z) : Z := if hasCore then (%s) else (%s).\n",
							stepChain("size", cs, name), stepChain("size", ps, name))
					}
				}
				// decision table: (size, in-degrees of the modules (None = not in the graph)) -> severity code
				var sizes []int64
				seen := map[int64]bool{}
				add := func(x int64) {
					if !seen[x] {
						seen[x] = true
						sizes = append(sizes, x)
					}
				}
				for _, x := range []int64{0, 1, 2, 50} {
					add(x)
				}
				for _, sg := range append(append([]stepSeg{}, ps[1:]...), cs[1:]...) {
					add(sg.from - 1)
					add(sg.from)
					add(sg.from + 1)
				}
				T := coreFrom
				degLists := [][]*int64{{}, {deg(0)}, {nil}, {deg(T - 1)}, {deg(T)}, {deg(T + 1)}, {deg(0), deg(T)}, {nil, deg(T)}, {deg(T), deg(0)},
					{deg(T - 1), deg(T - 1)}, {deg(0), nil, deg(T - 1), deg(T)}}
				var rows []string
				for _, s := range sizes {
					for _, dl := range degLists {
						r := assess(s, dl)
						var items []string
						for _, d := range dl {
							if d == nil {
								items = append(items, "None")
							} else {
								items = append(items, "Some "+coqZint(*d))
							}
						}
						rows = append(rows, fmt.Sprintf("((%s, [%s]), %s)", coqZint(s), strings.Join(items, "; "), coqZint(sevCode[codeName[r]])))
					}
				}
				if !bad {
					emitTable(&tb, "assessCycleSeverity_table", "(Z * list (option Z)) * Z", rows)
				}
			}
			if bad {
				emitTable(&tb, "assessCycleSeverity_table", "(Z * list (option Z)) * Z", nil)
			}
		} else {
			fail("assessCycleSeverity: function not found")
		}

		writeGen("DepsConst.v", b.String())
		writeGen("DepsTables.v", tb.String())
		for _, f := range []string{"DetectCircularDependencies", "resetState", "findStronglyConnectedComponents", "strongConnect",
			"processComponents", "assessCycleSeverity", "calculateStatistics", "updateGraphWithCycles", "severityOrder"} {
			recordDigest(p, file, "CircularDependencyDetector", f)
		}
		recordDigest(p, file, "", "minLowLink")
		recordDigest(p, "dependency_graph.go", "DependencyGraph", "AddModule")
		recordDigest(p, "dependency_graph.go", "DependencyGraph", "AddDependency")
	})
}
