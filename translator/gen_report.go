package main

// gen_report.go: tables and comparison operators of the report summaries and filters
// (property C16) -> coq/Gen/ReportConst.v (the harness reads the bucket labels from the generated comments).
//
//   * distribution bucket functions   getComplexityDistributionKey / getCBORange / getLCOMRange
//       -> report_<s>_bucket : Z -> nat (the code's clause chain), report_<s>_ranges (intervals the labels denote)
//   * risk level functions            calculateRiskLevel / CBOAnalyzer.assessRiskLevel / LCOMAnalyzer.assessRiskLevel
//       -> report_<s>_is_low / report_<s>_is_medium (the two comparisons, in order; results must be low, medium, high)
//   * filter comparisons              filterFunctions / filterClasses (CBO, LCOM) / filterClonePairs / filterCloneGroups
//   * top-N list lengths              maxTopClasses := 10

import (
	"fmt"
	"go/ast"
	"go/token"
	"regexp"
	"strconv"
	"strings"
)

type clause struct {
	cond   *ast.BinaryExpr // nil = default
	result ast.Expr
}

// clauseChain reads `if c1 { return r1 } else if c2 { return r2 } ... return rd`
// or `switch { case c1: return r1 ... default: return rd }` from the body of fd.
func clauseChain(fd *ast.FuncDecl) ([]clause, bool) {
	var out []clause
	if fd == nil || fd.Body == nil {
		return nil, false
	}
	retOf := func(stmts []ast.Stmt) ast.Expr {
		if len(stmts) != 1 {
			return nil
		}
		rs, ok := stmts[0].(*ast.ReturnStmt)
		if !ok || len(rs.Results) != 1 {
			return nil
		}
		return rs.Results[0]
	}
	for _, st := range fd.Body.List {
		switch s := st.(type) {
		case *ast.IfStmt:
			cur := s
			for cur != nil {
				be, ok := cur.Cond.(*ast.BinaryExpr)
				r := retOf(cur.Body.List)
				if !ok || r == nil || cur.Init != nil {
					return nil, false
				}
				out = append(out, clause{be, r})
				switch e := cur.Else.(type) {
				case nil:
					cur = nil
				case *ast.IfStmt:
					cur = e
				case *ast.BlockStmt:
					r := retOf(e.List)
					if r == nil {
						return nil, false
					}
					out = append(out, clause{nil, r})
					return out, true
				default:
					return nil, false
				}
			}
		case *ast.SwitchStmt:
			if s.Tag != nil || s.Init != nil {
				return nil, false
			}
			var dflt ast.Expr
			for _, c := range s.Body.List {
				cc := c.(*ast.CaseClause)
				r := retOf(cc.Body)
				if r == nil {
					return nil, false
				}
				if cc.List == nil {
					dflt = r
					continue
				}
				if len(cc.List) != 1 || dflt != nil {
					return nil, false
				}
				be, ok := cc.List[0].(*ast.BinaryExpr)
				if !ok {
					return nil, false
				}
				out = append(out, clause{be, r})
			}
			if dflt != nil {
				out = append(out, clause{nil, dflt})
				return out, true
			}
		case *ast.ReturnStmt:
			if len(s.Results) != 1 {
				return nil, false
			}
			out = append(out, clause{nil, s.Results[0]})
			return out, true
		default:
			return nil, false
		}
	}
	return nil, false
}

func coqCmpXY(op token.Token, x, y string) (string, bool) {
	switch op {
	case token.GTR:
		return fmt.Sprintf("Z.gtb %s %s", x, y), true
	case token.GEQ:
		return fmt.Sprintf("Z.geb %s %s", x, y), true
	case token.LSS:
		return fmt.Sprintf("Z.ltb %s %s", x, y), true
	case token.LEQ:
		return fmt.Sprintf("Z.leb %s %s", x, y), true
	case token.EQL:
		return fmt.Sprintf("Z.eqb %s %s", x, y), true
	case token.NEQ:
		return fmt.Sprintf("negb (Z.eqb %s %s)", x, y), true
	}
	return "", false
}

func coqCmpQ(op token.Token) (string, bool) {
	switch op {
	case token.GTR:
		return "negb (Qle_bool a b)", true
	case token.GEQ:
		return "Qle_bool b a", true
	case token.LSS:
		return "negb (Qle_bool b a)", true
	case token.LEQ:
		return "Qle_bool a b", true
	}
	return "", false
}

var reRange = regexp.MustCompile(`^(\d+)-(\d+)$`)
var rePlus = regexp.MustCompile(`^(\d+)\+$`)
var reOne = regexp.MustCompile(`^(\d+)$`)

func strLit(e ast.Expr) (string, bool) {
	bl, ok := e.(*ast.BasicLit)
	if !ok || bl.Kind != token.STRING {
		return "", false
	}
	s, err := strconv.Unquote(bl.Value)
	return s, err == nil
}

// emitBuckets writes report_<name>_bucket, _nbuckets, _ranges; returns the labels.
func emitBuckets(b *strings.Builder, p *pkgInfo, file, recv, fn, name string) []string {
	fd := findFunc(p, file, recv, fn)
	cl, ok := clauseChain(fd)
	if !ok || len(cl) < 2 || cl[len(cl)-1].cond != nil {
		fail("%s/%s:%s.%s: not a chain of `value <op> constant -> return \"label\"` clauses with a default", p.dir, file, recv, fn)
		return nil
	}
	if fd.Type.Params == nil || len(fd.Type.Params.List) != 1 || len(fd.Type.Params.List[0].Names) != 1 {
		fail("%s: expected one parameter", fn)
		return nil
	}
	param := fd.Type.Params.List[0].Names[0].Name
	var labels []string
	var body strings.Builder
	for i, c := range cl {
		lab, ok := strLit(c.result)
		if !ok {
			fail("%s: clause %d does not return a string literal", fn, i)
			return nil
		}
		labels = append(labels, lab)
		if c.cond == nil {
			fmt.Fprintf(&body, "%d%%nat", i)
			continue
		}
		v, isInt := intLit(c.cond.Y)
		if selName(c.cond.X) != param || !isInt {
			fail("%s: clause %d is not `%s <op> <int>`", fn, i, param)
			return nil
		}
		s, ok := coqCmpXY(c.cond.Op, "x", fmt.Sprintf("(%d)", v))
		if !ok {
			fail("%s: clause %d: unsupported operator %s", fn, i, c.cond.Op)
			return nil
		}
		fmt.Fprintf(&body, "if %s then %d%%nat else ", s, i)
	}
	fmt.Fprintf(b, "(* %s/%s: %s — labels %s *)\n", p.dir, file, fn, strings.Join(labels, " | "))
	fmt.Fprintf(b, "Definition report_%s_bucket (x : Z) : nat := %s.\n", name, body.String())
	fmt.Fprintf(b, "Definition report_%s_nbuckets : nat := %d%%nat.\n", name, len(labels))
	// intervals the labels denote: "n" = [n,n]; "a-b" = [a,b]; "n+" = everything above the largest explicit upper bound
	type rg struct {
		lo  int64
		hi  int64
		inf bool
	}
	rs := make([]rg, len(labels))
	var maxHi int64 = -1 << 62
	for i, l := range labels {
		if m := reRange.FindStringSubmatch(l); m != nil {
			lo, _ := strconv.ParseInt(m[1], 10, 64)
			hi, _ := strconv.ParseInt(m[2], 10, 64)
			rs[i] = rg{lo, hi, false}
			if hi > maxHi {
				maxHi = hi
			}
		} else if m := reOne.FindStringSubmatch(l); m != nil {
			v, _ := strconv.ParseInt(m[1], 10, 64)
			rs[i] = rg{v, v, false}
			if v > maxHi {
				maxHi = v
			}
		} else if rePlus.MatchString(l) {
			rs[i] = rg{0, 0, true}
		} else {
			fail("%s: label %q is neither n, a-b nor n+", fn, l)
			return nil
		}
	}
	var parts []string
	for i, l := range labels {
		if rs[i].inf {
			m := rePlus.FindStringSubmatch(l)
			n, _ := strconv.ParseInt(m[1], 10, 64)
			// "n+" must start right above the explicit ranges: n = maxHi+1 ("21+" after "11-20") or n = maxHi ("50+" after "21-50", read as "more than 50")
			if n != maxHi && n != maxHi+1 {
				fail("%s: open label %q does not continue the explicit ranges (largest upper bound %d)", fn, l, maxHi)
				return nil
			}
			parts = append(parts, fmt.Sprintf("((%d)%%Z, None)", maxHi+1))
		} else {
			parts = append(parts, fmt.Sprintf("((%d)%%Z, Some (%d)%%Z)", rs[i].lo, rs[i].hi))
		}
	}
	fmt.Fprintf(b, "Definition report_%s_ranges : list (Z * option Z) := [%s].\n\n", name, strings.Join(parts, "; "))
	recordDigest(p, file, recv, fn)
	return labels
}

// emitRisk writes report_<name>_is_low / _is_medium (value, threshold) from a 3-way chain returning low, medium, high.
func emitRisk(b *strings.Builder, p *pkgInfo, file, recv, fn, name string) {
	fd := findFunc(p, file, recv, fn)
	cl, ok := clauseChain(fd)
	if !ok || len(cl) != 3 || cl[2].cond != nil {
		fail("%s/%s:%s.%s: not a low / medium / high chain", p.dir, file, recv, fn)
		return
	}
	want := []string{"low", "medium", "high"}
	for i, c := range cl {
		got := strings.ToLower(src(p, c.result))
		if !strings.Contains(got, want[i]) {
			fail("%s: clause %d returns %s, expected the %s level", fn, i, got, want[i])
			return
		}
	}
	thr := []string{"LowThreshold", "MediumThreshold"}
	nm := []string{"is_low", "is_medium"}
	for i := 0; i < 2; i++ {
		be := cl[i].cond
		if !strings.HasSuffix(selName(be.Y), thr[i]) {
			fail("%s: clause %d does not compare with %s", fn, i, thr[i])
			return
		}
		s, ok := coqCmp(be.Op)
		if !ok {
			fail("%s: clause %d: unsupported operator", fn, i)
			return
		}
		fmt.Fprintf(b, "Definition report_%s_%s (a b : Z) : bool := %s.  (* %s *)\n", name, nm[i], s, src(p, be))
	}
	recordDigest(p, file, recv, fn)
}

// cmpIn finds the unique comparison `<suffix lhs> op <suffix rhs>` in fd.
func cmpIn(p *pkgInfo, fd *ast.FuncDecl, lhsSuffix, rhsSuffix string) (token.Token, string, bool) {
	var op token.Token
	var text string
	n := 0
	if fd == nil {
		return op, "", false
	}
	ast.Inspect(fd, func(nd ast.Node) bool {
		be, ok := nd.(*ast.BinaryExpr)
		if !ok {
			return true
		}
		if strings.HasSuffix(selName(be.X), lhsSuffix) && (strings.HasSuffix(selName(be.Y), rhsSuffix) || (rhsSuffix == "0" && src(p, be.Y) == "0")) {
			if _, ok := coqCmp(be.Op); ok {
				op = be.Op
				text = src(p, be)
				n++
			}
		}
		return true
	})
	return op, text, n == 1
}

func emitCmp(b *strings.Builder, p *pkgInfo, file, recv, fn, lhs, rhs, name string, q bool) {
	fd := findFunc(p, file, recv, fn)
	op, text, ok := cmpIn(p, fd, lhs, rhs)
	if !ok {
		fail("%s/%s:%s.%s: comparison %s ? %s not found exactly once", p.dir, file, recv, fn, lhs, rhs)
		return
	}
	if q {
		s, ok := coqCmpQ(op)
		if !ok {
			fail("%s: unsupported float comparison %s", fn, op)
			return
		}
		fmt.Fprintf(b, "Definition %s (a b : Q) : bool := %s.  (* %s *)\n", name, s, text)
		return
	}
	s, _ := coqCmp(op)
	fmt.Fprintf(b, "Definition %s (a b : Z) : bool := %s.  (* %s *)\n", name, s, text)
}

func topN(p *pkgInfo, file, recv, fn, varName string) (int64, bool) {
	fd := findFunc(p, file, recv, fn)
	var v int64
	n := 0
	if fd == nil {
		return 0, false
	}
	ast.Inspect(fd, func(nd ast.Node) bool {
		as, ok := nd.(*ast.AssignStmt)
		if !ok || as.Tok != token.DEFINE || len(as.Lhs) != 1 || len(as.Rhs) != 1 {
			return true
		}
		if id, ok := as.Lhs[0].(*ast.Ident); ok && id.Name == varName {
			if x, ok := intLit(as.Rhs[0]); ok {
				v = x
				n++
			}
		}
		return true
	})
	return v, n == 1
}

func init() {
	generators = append(generators, func() {
		svc := loadPkg("service")
		an := loadPkg("internal/analyzer")
		var b strings.Builder
		b.WriteString("Open Scope Q_scope.\nOpen Scope Z_scope.\n\n")
		labels := map[string][]string{}
		labels["complexity"] = emitBuckets(&b, svc, "complexity_service.go", "ComplexityServiceImpl", "getComplexityDistributionKey", "cx")
		labels["cbo"] = emitBuckets(&b, svc, "cbo_service.go", "CBOServiceImpl", "getCBORange", "cbo")
		labels["lcom"] = emitBuckets(&b, svc, "lcom_service.go", "LCOMServiceImpl", "getLCOMRange", "lcom")

		b.WriteString("(* risk levels: value <op> LowThreshold -> low; value <op> MediumThreshold -> medium; else high *)\n")
		emitRisk(&b, svc, "complexity_service.go", "ComplexityServiceImpl", "calculateRiskLevel", "cx")
		emitRisk(&b, an, "cbo.go", "CBOAnalyzer", "assessRiskLevel", "cbo")
		emitRisk(&b, an, "lcom.go", "LCOMAnalyzer", "assessRiskLevel", "lcom")

		b.WriteString("\n(* filters: an item is dropped when the comparison holds *)\n")
		emitCmp(&b, svc, "complexity_service.go", "ComplexityServiceImpl", "filterFunctions", "Metrics.Complexity", "req.MinComplexity", "report_cx_drop_below", false)
		emitCmp(&b, svc, "cbo_service.go", "CBOServiceImpl", "filterClasses", "Metrics.CouplingCount", "req.MinCBO", "report_cbo_drop_below", false)
		emitCmp(&b, svc, "cbo_service.go", "CBOServiceImpl", "filterClasses", "Metrics.CouplingCount", "req.MaxCBO", "report_cbo_drop_above", false)
		emitCmp(&b, svc, "cbo_service.go", "CBOServiceImpl", "filterClasses", "req.MaxCBO", "0", "report_cbo_max_given", false)
		emitCmp(&b, svc, "cbo_service.go", "CBOServiceImpl", "filterClasses", "Metrics.CouplingCount", "0", "report_cbo_is_zero", false)
		emitCmp(&b, svc, "lcom_service.go", "LCOMServiceImpl", "filterClasses", "Metrics.LCOM4", "req.MinLCOM", "report_lcom_drop_below", false)
		emitCmp(&b, svc, "lcom_service.go", "LCOMServiceImpl", "filterClasses", "Metrics.LCOM4", "req.MaxLCOM", "report_lcom_drop_above", false)
		emitCmp(&b, svc, "lcom_service.go", "LCOMServiceImpl", "filterClasses", "req.MaxLCOM", "0", "report_lcom_max_given", false)
		emitCmp(&b, svc, "clone_service.go", "CloneService", "filterClonePairs", "pair.Similarity", "req.MinSimilarity", "report_pair_drop_below", true)
		emitCmp(&b, svc, "clone_service.go", "CloneService", "filterClonePairs", "pair.Similarity", "req.MaxSimilarity", "report_pair_drop_above", true)
		emitCmp(&b, svc, "clone_service.go", "CloneService", "filterCloneGroups", "group.Similarity", "req.MinSimilarity", "report_group_drop_below", true)
		emitCmp(&b, svc, "clone_service.go", "CloneService", "filterCloneGroups", "group.Similarity", "req.MaxSimilarity", "report_group_drop_above", true)

		b.WriteString("\n(* top-N lists *)\n")
		if v, ok := topN(svc, "cbo_service.go", "CBOServiceImpl", "generateSummary", "maxTopClasses"); ok {
			fmt.Fprintf(&b, "Definition report_cbo_topn : nat := %d%%nat.\n", v)
		} else {
			fail("cbo generateSummary: maxTopClasses := <int> not found")
		}
		if v, ok := topN(svc, "lcom_service.go", "LCOMServiceImpl", "generateSummary", "maxTopClasses"); ok {
			fmt.Fprintf(&b, "Definition report_lcom_topn : nat := %d%%nat.\n", v)
		} else {
			fail("lcom generateSummary: maxTopClasses := <int> not found")
		}
		writeGen("ReportConst.v", b.String())
		_ = labels

		for _, f := range [][3]string{
			{"complexity_service.go", "ComplexityServiceImpl", "generateSummary"}, {"complexity_service.go", "ComplexityServiceImpl", "filterFunctions"},
			{"complexity_service.go", "ComplexityServiceImpl", "Analyze"},
			{"dead_code_service.go", "DeadCodeServiceImpl", "generateSummary"}, {"dead_code_service.go", "DeadCodeServiceImpl", "filterFiles"},
			{"dead_code_service.go", "DeadCodeServiceImpl", "filterFindingsBySeverity"}, {"dead_code_service.go", "DeadCodeServiceImpl", "analyzeFile"},
			{"dead_code_service.go", "DeadCodeServiceImpl", "countTotalFindings"}, {"dead_code_service.go", "DeadCodeServiceImpl", "Analyze"},
			{"cbo_service.go", "CBOServiceImpl", "generateSummary"}, {"cbo_service.go", "CBOServiceImpl", "filterClasses"}, {"cbo_service.go", "CBOServiceImpl", "Analyze"},
			{"lcom_service.go", "LCOMServiceImpl", "generateSummary"}, {"lcom_service.go", "LCOMServiceImpl", "filterClasses"}, {"lcom_service.go", "LCOMServiceImpl", "Analyze"},
			{"clone_service.go", "CloneService", "createStatistics"}, {"clone_service.go", "CloneService", "filterClonePairs"},
			{"clone_service.go", "CloneService", "filterCloneGroups"},
			{"analyze_formatter.go", "AnalyzeFormatter", "writeCSV"}, {"analyze_formatter.go", "AnalyzeFormatter", "writeText"},
			{"analyze_formatter.go", "AnalyzeFormatter", "writeHTML"}, {"analyze_formatter.go", "AnalyzeFormatter", "Write"},
		} {
			recordDigest(svc, f[0], f[1], f[2])
		}
		dom := loadPkg("domain")
		recordDigest(dom, "dead_code.go", "FunctionDeadCode", "CalculateSeverityCounts")
		recordDigest(dom, "dead_code.go", "FunctionDeadCode", "HasFindingsAtSeverity")
		recordDigest(dom, "dead_code.go", "DeadCodeSeverity", "IsAtLeast")
		appp := loadPkg("app")
		recordDigest(appp, "analyze_usecase.go", "AnalyzeUseCase", "calculateSummary")
	})
}
