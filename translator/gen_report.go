package main

// gen_report.go: tables and comparison operators of the report summaries and filters
// (property C16) -> coq/Gen/ReportConst.v (the harness reads the bucket labels from the generated comments).
//
//   * distribution bucket functions   getComplexityDistributionKey / getCBORange / getLCOMRange
//       -> report_<s>_bucket : Z -> nat (the code's clause chain), report_<s>_ranges (intervals the labels denote)
//   * risk level functions            calculateRiskLevel / CBOAnalyzer.assessRiskLevel / LCOMAnalyzer.assessRiskLevel
//       -> report_<s>_is_low / report_<s>_is_medium (the two comparisons, in order; results must be low, medium, high)
//   * filter comparisons              filterFunctions / filterClasses (CBO, LCOM) / filterClonePairs / filterCloneGroups
//   * top-N list lengths              maxTopClasses := 10

import (
	"fmt"
	"go/ast"
	"go/token"
	"go/types"
	"regexp"
	"sort"
	"strconv"
	"strings"
)

type clause struct {
	cond   *ast.BinaryExpr // nil = default
	result ast.Expr
}

// clauseChain reads `if c1 { return r1 } else if c2 { return r2 } ... return rd`
// or `switch { case c1: return r1 ... default: return rd }` from the body of fd.
func clauseChain(fd *ast.FuncDecl) ([]clause, bool) {
	var out []clause
	if fd == nil || fd.Body == nil {
		return nil, false
	}
	retOf := func(stmts []ast.Stmt) ast.Expr {
		if len(stmts) != 1 {
			return nil
		}
		rs, ok := stmts[0].(*ast.ReturnStmt)
		if !ok || len(rs.Results) != 1 {
			return nil
		}
		return rs.Results[0]
	}
	for _, st := range fd.Body.List {
		switch s := st.(type) {
		case *ast.IfStmt:
			cur := s
			for cur != nil {
				be, ok := cur.Cond.(*ast.BinaryExpr)
				r := retOf(cur.Body.List)
				if !ok || r == nil || cur.Init != nil {
					return nil, false
				}
				out = append(out, clause{be, r})
				switch e := cur.Else.(type) {
				case nil:
					cur = nil
				case *ast.IfStmt:
					cur = e
				case *ast.BlockStmt:
					r := retOf(e.List)
					if r == nil {
						return nil, false
					}
					out = append(out, clause{nil, r})
					return out, true
				default:
					return nil, false
				}
			}
		case *ast.SwitchStmt:
			if s.Tag != nil || s.Init != nil {
				return nil, false
			}
			var dflt ast.Expr
			for _, c := range s.Body.List {
				cc := c.(*ast.CaseClause)
				r := retOf(cc.Body)
				if r == nil {
					return nil, false
				}
				if cc.List == nil {
					dflt = r
					continue
				}
				if len(cc.List) != 1 || dflt != nil {
					return nil, false
				}
				be, ok := cc.List[0].(*ast.BinaryExpr)
				if !ok {
					return nil, false
				}
				out = append(out, clause{be, r})
			}
			if dflt != nil {
				out = append(out, clause{nil, dflt})
				return out, true
			}
		case *ast.ReturnStmt:
			if len(s.Results) != 1 {
				return nil, false
			}
			out = append(out, clause{nil, s.Results[0]})
			return out, true
		default:
			return nil, false
		}
	}
	return nil, false
}

func coqCmpXY(op token.Token, x, y string) (string, bool) {
	switch op {
	case token.GTR:
		return fmt.Sprintf("Z.gtb %s %s", x, y), true
	case token.GEQ:
		return fmt.Sprintf("Z.geb %s %s", x, y), true
	case token.LSS:
		return fmt.Sprintf("Z.ltb %s %s", x, y), true
	case token.LEQ:
		return fmt.Sprintf("Z.leb %s %s", x, y), true
	case token.EQL:
		return fmt.Sprintf("Z.eqb %s %s", x, y), true
	case token.NEQ:
		return fmt.Sprintf("negb (Z.eqb %s %s)", x, y), true
	}
	return "", false
}

func coqCmpQ(op token.Token) (string, bool) {
	switch op {
	case token.GTR:
		return "negb (Qle_bool a b)", true
	case token.GEQ:
		return "Qle_bool b a", true
	case token.LSS:
		return "negb (Qle_bool b a)", true
	case token.LEQ:
		return "Qle_bool a b", true
	}
	return "", false
}

var reRange = regexp.MustCompile(`^(\d+)-(\d+)$`)
var rePlus = regexp.MustCompile(`^(\d+)\+$`)
var reOne = regexp.MustCompile(`^(\d+)$`)

func strLit(e ast.Expr) (string, bool) {
	bl, ok := e.(*ast.BasicLit)
	if !ok || bl.Kind != token.STRING {
		return "", false
	}
	s, err := strconv.Unquote(bl.Value)
	return s, err == nil
}

// emitBuckets writes report_<name>_bucket, _nbuckets, _ranges; returns the labels.
func emitBuckets(b *strings.Builder, p *pkgInfo, file, recv, fn, name string) []string {
	fd := findFunc(p, file, recv, fn)
	cl, ok := clauseChain(fd)
	if !ok || len(cl) < 2 || cl[len(cl)-1].cond != nil {
		fail("%s/%s:%s.%s: not a chain of `value <op> constant -> return \"label\"` clauses with a default", p.dir, file, recv, fn)
		return nil
	}
	if fd.Type.Params == nil || len(fd.Type.Params.List) != 1 || len(fd.Type.Params.List[0].Names) != 1 {
		fail("%s: expected one parameter", fn)
		return nil
	}
	param := fd.Type.Params.List[0].Names[0].Name
	var labels []string
	var body strings.Builder
	for i, c := range cl {
		lab, ok := strLit(c.result)
		if !ok {
			fail("%s: clause %d does not return a string literal", fn, i)
			return nil
		}
		labels = append(labels, lab)
		if c.cond == nil {
			fmt.Fprintf(&body, "%d%%nat", i)
			continue
		}
		v, isInt := intLit(c.cond.Y)
		if selName(c.cond.X) != param || !isInt {
			fail("%s: clause %d is not `%s <op> <int>`", fn, i, param)
			return nil
		}
		s, ok := coqCmpXY(c.cond.Op, "x", fmt.Sprintf("(%d)", v))
		if !ok {
			fail("%s: clause %d: unsupported operator %s", fn, i, c.cond.Op)
			return nil
		}
		fmt.Fprintf(&body, "if %s then %d%%nat else ", s, i)
	}
	fmt.Fprintf(b, "(* %s/%s: %s — labels %s *)\n", p.dir, file, fn, strings.Join(labels, " | "))
	fmt.Fprintf(b, "Definition report_%s_bucket (x : Z) : nat := %s.\n", name, body.String())
	fmt.Fprintf(b, "Definition report_%s_nbuckets : nat := %d%%nat.\n", name, len(labels))
	// intervals the labels denote: "n" = [n,n]; "a-b" = [a,b]; "n+" = everything above the largest explicit upper bound
	type rg struct {
		lo  int64
		hi  int64
		inf bool
	}
	rs := make([]rg, len(labels))
	var maxHi int64 = -1 << 62
	for i, l := range labels {
		if m := reRange.FindStringSubmatch(l); m != nil {
			lo, _ := strconv.ParseInt(m[1], 10, 64)
			hi, _ := strconv.ParseInt(m[2], 10, 64)
			rs[i] = rg{lo, hi, false}
			if hi > maxHi {
				maxHi = hi
			}
		} else if m := reOne.FindStringSubmatch(l); m != nil {
			v, _ := strconv.ParseInt(m[1], 10, 64)
			rs[i] = rg{v, v, false}
			if v > maxHi {
				maxHi = v
			}
		} else if rePlus.MatchString(l) {
			rs[i] = rg{0, 0, true}
		} else {
			fail("%s: label %q is neither n, a-b nor n+", fn, l)
			return nil
		}
	}
	var parts []string
	for i, l := range labels {
		if rs[i].inf {
			m := rePlus.FindStringSubmatch(l)
			n, _ := strconv.ParseInt(m[1], 10, 64)
			// "n+" must start right above the explicit ranges: n = maxHi+1 ("21+" after "11-20") or n = maxHi ("50+" after "21-50", read as "more than 50")
			if n != maxHi && n != maxHi+1 {
				fail("%s: open label %q does not continue the explicit ranges (largest upper bound %d)", fn, l, maxHi)
				return nil
			}
			parts = append(parts, fmt.Sprintf("((%d)%%Z, None)", maxHi+1))
		} else {
			parts = append(parts, fmt.Sprintf("((%d)%%Z, Some (%d)%%Z)", rs[i].lo, rs[i].hi))
		}
	}
	fmt.Fprintf(b, "Definition report_%s_ranges : list (Z * option Z) := [%s].\n\n", name, strings.Join(parts, "; "))
	recordDigest(p, file, recv, fn)
	return labels
}

// emitRisk writes report_<name>_is_low / _is_medium (value, threshold) from a 3-way chain returning low, medium, high.
func emitRisk(b *strings.Builder, p *pkgInfo, file, recv, fn, name string) {
	fd := findFunc(p, file, recv, fn)
	cl, ok := clauseChain(fd)
	if !ok || len(cl) != 3 || cl[2].cond != nil {
		fail("%s/%s:%s.%s: not a low / medium / high chain", p.dir, file, recv, fn)
		return
	}
	want := []string{"low", "medium", "high"}
	for i, c := range cl {
		got := strings.ToLower(src(p, c.result))
		if !strings.Contains(got, want[i]) {
			fail("%s: clause %d returns %s, expected the %s level", fn, i, got, want[i])
			return
		}
	}
	thr := []string{"LowThreshold", "MediumThreshold"}
	nm := []string{"is_low", "is_medium"}
	for i := 0; i < 2; i++ {
		be := cl[i].cond
		if !strings.HasSuffix(selName(be.Y), thr[i]) {
			fail("%s: clause %d does not compare with %s", fn, i, thr[i])
			return
		}
		s, ok := coqCmp(be.Op)
		if !ok {
			fail("%s: clause %d: unsupported operator", fn, i)
			return
		}
		fmt.Fprintf(b, "Definition report_%s_%s (a b : Z) : bool := %s.  (* %s *)\n", name, nm[i], s, src(p, be))
	}
	recordDigest(p, file, recv, fn)
}

// cmpIn finds the unique comparison `<suffix lhs> op <suffix rhs>` in fd.
func cmpIn(p *pkgInfo, fd *ast.FuncDecl, lhsSuffix, rhsSuffix string) (token.Token, string, bool) {
	var op token.Token
	var text string
	n := 0
	if fd == nil {
		return op, "", false
	}
	ast.Inspect(fd, func(nd ast.Node) bool {
		be, ok := nd.(*ast.BinaryExpr)
		if !ok {
			return true
		}
		if strings.HasSuffix(selName(be.X), lhsSuffix) && (strings.HasSuffix(selName(be.Y), rhsSuffix) || (rhsSuffix == "0" && src(p, be.Y) == "0")) {
			if _, ok := coqCmp(be.Op); ok {
				op = be.Op
				text = src(p, be)
				n++
			}
		}
		return true
	})
	return op, text, n == 1
}

func emitCmp(b *strings.Builder, p *pkgInfo, file, recv, fn, lhs, rhs, name string, q bool) {
	fd := findFunc(p, file, recv, fn)
	op, text, ok := cmpIn(p, fd, lhs, rhs)
	if !ok {
		fail("%s/%s:%s.%s: comparison %s ? %s not found exactly once", p.dir, file, recv, fn, lhs, rhs)
		return
	}
	if q {
		s, ok := coqCmpQ(op)
		if !ok {
			fail("%s: unsupported float comparison %s", fn, op)
			return
		}
		fmt.Fprintf(b, "Definition %s (a b : Q) : bool := %s.  (* %s *)\n", name, s, text)
		return
	}
	s, _ := coqCmp(op)
	fmt.Fprintf(b, "Definition %s (a b : Z) : bool := %s.  (* %s *)\n", name, s, text)
}

func topN(p *pkgInfo, file, recv, fn, varName string) (int64, bool) {
	fd := findFunc(p, file, recv, fn)
	var v int64
	n := 0
	if fd == nil {
		return 0, false
	}
	ast.Inspect(fd, func(nd ast.Node) bool {
		as, ok := nd.(*ast.AssignStmt)
		if !ok || as.Tok != token.DEFINE || len(as.Lhs) != 1 || len(as.Rhs) != 1 {
			return true
		}
		if id, ok := as.Lhs[0].(*ast.Ident); ok && id.Name == varName {
			if x, ok := intLit(as.Rhs[0]); ok {
				v = x
				n++
			}
		}
		return true
	})
	return v, n == 1
}

// ---------------------------------------------------------------------------------------------------
// semantic reading (goeval.go)
// ---------------------------------------------------------------------------------------------------

type reportEval struct {
	in  *Interp
	b   *strings.Builder // ReportConst.v
	tb  *strings.Builder // ReportTables.v
	svc *pkgInfo
	an  *pkgInfo
	dom *pkgInfo
}

// keptValues runs a filter function on items built from vals and returns the values of the items it keeps.
func (r *reportEval) keptValues(p *pkgInfo, fd *ast.FuncDecl, recv string, items []Value, req Value, valueOf func(Value) Value) ([]Value, error) {
	v, err := r.in.call1(p, fd, mkStruct(recv), mkSlice(items...), req)
	if err != nil {
		return nil, err
	}
	var out []Value
	if s, _ := v.(*Slice); s != nil {
		for _, e := range s.E {
			out = append(out, valueOf(e))
		}
	}
	return out, nil
}

func zList(vs []Value) string {
	var items []string
	for _, v := range vs {
		n, _ := v.(int64)
		items = append(items, coqZint(n))
	}
	return "[" + strings.Join(items, "; ") + "]"
}

// emitBucketsEval: the distribution bucket function read by evaluation: labels ordered by their leading number,
// the function as an ascending chain of `x <= bound` tests over the segments found by scanning x.
func (r *reportEval) emitBucketsEval(p *pkgInfo, file, recv, fn, name string) []string {
	b := r.b
	fd := findFunc(p, file, recv, fn)
	if fd == nil {
		fail("%s/%s:%s.%s: function not found", p.dir, file, recv, fn)
		return nil
	}
	var xs []int64
	for x := int64(-3); x <= 130; x++ {
		xs = append(xs, x)
	}
	xs = append(xs, 1000, 1000000)
	var vals []string
	for _, x := range xs {
		l, err := asString(r.in.call1(p, fd, mkStruct(recv), x))
		if err != nil {
			fail("%s: cannot be evaluated: %v", fn, err)
			return nil
		}
		vals = append(vals, l)
	}
	segs := stepSegments(xs, vals)
	// labels: "n", "a-b", "n+"; ordered by the leading number
	type lab struct {
		text string
		key  int64
	}
	var labs []lab
	seen := map[string]bool{}
	for _, sg := range segs {
		if seen[sg.val] {
			continue
		}
		seen[sg.val] = true
		m := regexp.MustCompile(`^(\d+)`).FindString(sg.val)
		if m == "" {
			fail("%s: label %q is neither n, a-b nor n+", fn, sg.val)
			return nil
		}
		k, _ := strconv.ParseInt(m, 10, 64)
		labs = append(labs, lab{sg.val, k})
	}
	sort.SliceStable(labs, func(i, j int) bool { return labs[i].key < labs[j].key })
	index := map[string]int{}
	var labels []string
	for i, l := range labs {
		index[l.text] = i
		labels = append(labels, l.text)
	}
	var body strings.Builder
	for i, sg := range segs {
		if i == len(segs)-1 {
			fmt.Fprintf(&body, "%d%%nat", index[sg.val])
		} else {
			fmt.Fprintf(&body, "if Z.leb x (%d) then %d%%nat else ", segs[i+1].from-1, index[sg.val])
		}
	}
	fmt.Fprintf(b, "(* %s/%s: %s — labels %s *)\n", p.dir, file, fn, strings.Join(labels, " | "))
	fmt.Fprintf(b, "Definition report_%s_bucket (x : Z) : nat := %s.\n", name, body.String())
	fmt.Fprintf(b, "Definition report_%s_nbuckets : nat := %d%%nat.\n", name, len(labels))
	type rg struct {
		lo  int64
		hi  int64
		inf bool
	}
	rs := make([]rg, len(labels))
	var maxHi int64 = -1 << 62
	for i, l := range labels {
		if m := reRange.FindStringSubmatch(l); m != nil {
			lo, _ := strconv.ParseInt(m[1], 10, 64)
			hi, _ := strconv.ParseInt(m[2], 10, 64)
			rs[i] = rg{lo, hi, false}
			if hi > maxHi {
				maxHi = hi
			}
		} else if m := reOne.FindStringSubmatch(l); m != nil {
			v, _ := strconv.ParseInt(m[1], 10, 64)
			rs[i] = rg{v, v, false}
			if v > maxHi {
				maxHi = v
			}
		} else if rePlus.MatchString(l) {
			rs[i] = rg{0, 0, true}
		} else {
			fail("%s: label %q is neither n, a-b nor n+", fn, l)
			return nil
		}
	}
	var parts []string
	for i, l := range labels {
		if rs[i].inf {
			m := rePlus.FindStringSubmatch(l)
			n, _ := strconv.ParseInt(m[1], 10, 64)
			if n != maxHi && n != maxHi+1 {
				fail("%s: open label %q does not continue the explicit ranges (largest upper bound %d)", fn, l, maxHi)
				return nil
			}
			parts = append(parts, fmt.Sprintf("((%d)%%Z, None)", maxHi+1))
		} else {
			parts = append(parts, fmt.Sprintf("((%d)%%Z, Some (%d)%%Z)", rs[i].lo, rs[i].hi))
		}
	}
	fmt.Fprintf(b, "Definition report_%s_ranges : list (Z * option Z) := [%s].\n\n", name, strings.Join(parts, "; "))
	recordDigest(p, file, recv, fn)
	return labels
}

// emitRiskEval: is_low / is_medium read by probing the risk function; plus its decision table.
func (r *reportEval) emitRiskEval(p *pkgInfo, file, recv, fn, name string, call func(fd *ast.FuncDecl, low, medium, x int64) (Value, error)) {
	fd := findFunc(p, file, recv, fn)
	if fd == nil {
		fail("%s/%s:%s.%s: function not found", p.dir, file, recv, fn)
		return
	}
	code := map[string]int64{}
	for i, n := range []string{"RiskLevelLow", "RiskLevelMedium", "RiskLevelHigh"} {
		c, _ := r.dom.pkg.Scope().Lookup(n).(*types.Const)
		if c == nil {
			fail("%s: constant domain.%s not found", fn, n)
			return
		}
		v, _ := constToValue(c.Val(), c.Type())
		s, _ := v.(string)
		code[s] = int64(i)
	}
	risk := func(low, medium, x int64) (int64, error) {
		s, err := asString(call(fd, low, medium, x))
		if err != nil {
			return 0, err
		}
		c, ok := code[s]
		if !ok {
			return 3, nil
		}
		return c, nil
	}
	if op, ok := probe3(fn+": value against LowThreshold", func(rel int64) (bool, error) {
		c, err := risk(5, 9, 5+rel)
		return c == 0, err
	}); ok {
		sc, _ := coqCmp(op)
		fmt.Fprintf(r.b, "Definition report_%s_is_low (a b : Z) : bool := %s.  (* %s: value %s LowThreshold -> low *)\n", name, sc, fn, op)
	}
	if op, ok := probe3(fn+": value against MediumThreshold", func(rel int64) (bool, error) {
		c, err := risk(2, 9, 9+rel)
		return c == 1, err
	}); ok {
		sc, _ := coqCmp(op)
		fmt.Fprintf(r.b, "Definition report_%s_is_medium (a b : Z) : bool := %s.  (* %s: value %s MediumThreshold -> medium *)\n", name, sc, fn, op)
	}
	var rows []string
	for _, t := range [][2]int64{{5, 9}, {3, 7}, {9, 5}, {4, 4}, {0, 0}} {
		seen := map[int64]bool{}
		for _, base := range []int64{t[0], t[1], 0} {
			for d := int64(-1); d <= 1; d++ {
				x := base + d
				if seen[x] {
					continue
				}
				seen[x] = true
				c, err := risk(t[0], t[1], x)
				if err != nil {
					fail("%s: cannot be evaluated: %v", fn, err)
					return
				}
				rows = append(rows, fmt.Sprintf("(((%s, %s), %s), %s)", coqZint(t[0]), coqZint(t[1]), coqZint(x), coqZint(c)))
			}
		}
	}
	emitTable(r.tb, "risk_"+name+"_table", "((Z * Z) * Z) * Z", rows)
	recordDigest(p, file, recv, fn)
}

func init() {
	generators = append(generators, func() {
		svc := loadPkg("service")
		an := loadPkg("internal/analyzer")
		dom := loadPkg("domain")
		if svc == nil || an == nil || dom == nil {
			fail("gen_report: packages not loadable")
			return
		}
		var b, tb strings.Builder
		b.WriteString("Open Scope Q_scope.\nOpen Scope Z_scope.\n\n")
		tb.WriteString("Open Scope Q_scope.\nOpen Scope Z_scope.\n\n")
		r := &reportEval{in: newInterp(svc, an, dom), b: &b, tb: &tb, svc: svc, an: an, dom: dom}
		labels := map[string][]string{}
		labels["complexity"] = r.emitBucketsEval(svc, "complexity_service.go", "ComplexityServiceImpl", "getComplexityDistributionKey", "cx")
		labels["cbo"] = r.emitBucketsEval(svc, "cbo_service.go", "CBOServiceImpl", "getCBORange", "cbo")
		labels["lcom"] = r.emitBucketsEval(svc, "lcom_service.go", "LCOMServiceImpl", "getLCOMRange", "lcom")

		b.WriteString("(* risk levels: value <op> LowThreshold -> low; value <op> MediumThreshold -> medium; else high (read by evaluation) *)\n")
		r.emitRiskEval(svc, "complexity_service.go", "ComplexityServiceImpl", "calculateRiskLevel", "cx", func(fd *ast.FuncDecl, low, medium, x int64) (Value, error) {
			return r.in.call1(svc, fd, mkStruct("ComplexityServiceImpl"), x, mkStruct("ComplexityRequest", "LowThreshold", low, "MediumThreshold", medium))
		})
		for _, it := range [][4]string{{"cbo.go", "CBOAnalyzer", "CBOOptions", "cbo"}, {"lcom.go", "LCOMAnalyzer", "LCOMOptions", "lcom"}} {
			it := it
			r.emitRiskEval(an, it[0], it[1], "assessRiskLevel", it[3], func(fd *ast.FuncDecl, low, medium, x int64) (Value, error) {
				return r.in.call1(an, fd, mkStruct(it[1], "options", mkStruct(it[2], "LowThreshold", low, "MediumThreshold", medium)), x)
			})
		}

		b.WriteString("\n(* filters: an item is dropped when the comparison holds (read by evaluation) *)\n")
		emitOp := func(name, comment string, op token.Token, q bool) {
			if q {
				sc, ok := coqCmpQ(op)
				if !ok {
					fail("%s: unsupported float comparison %s", name, op)
					return
				}
				fmt.Fprintf(&b, "Definition %s (a b : Q) : bool := %s.  (* %s: a %s b *)\n", name, sc, comment, op)
				return
			}
			sc, _ := coqCmp(op)
			fmt.Fprintf(&b, "Definition %s (a b : Z) : bool := %s.  (* %s: a %s b *)\n", name, sc, comment, op)
		}

		// ---- complexity: filterFunctions(functions, req) -----------------------------------------------
		if fd := findFunc(svc, "complexity_service.go", "ComplexityServiceImpl", "filterFunctions"); fd == nil {
			fail("service/complexity_service.go: filterFunctions not found")
		} else {
			item := func(cx int64) Value {
				return mkStruct("FunctionComplexity", "Name", "f", "Metrics", mkStruct("ComplexityMetrics", "Complexity", cx))
			}
			val := func(v Value) Value { return v.(*Struct).F["Metrics"].(*Struct).F["Complexity"] }
			kept := func(min int64, cxs []int64) ([]Value, error) {
				var items []Value
				for _, c := range cxs {
					items = append(items, item(c))
				}
				return r.keptValues(svc, fd, "ComplexityServiceImpl", items, mkStruct("ComplexityRequest", "MinComplexity", min, "MaxComplexity", int64(0)), val)
			}
			if op, ok := probe3("filterFunctions: complexity against MinComplexity", func(rel int64) (bool, error) {
				k, err := kept(5, []int64{5 + rel})
				return len(k) == 0, err
			}); ok {
				emitOp("report_cx_drop_below", "filterFunctions, complexity against req.MinComplexity", op, false)
			}
			var rows []string
			for _, min := range []int64{0, 1, 2, 5, 9} {
				cxs := []int64{1, 2, 4, 5, 6, 1, 9, 8, 10, 30}
				k, err := kept(min, cxs)
				if err != nil {
					fail("filterFunctions: cannot be evaluated: %v", err)
					break
				}
				var in []Value
				for _, c := range cxs {
					in = append(in, c)
				}
				rows = append(rows, fmt.Sprintf("((%s, %s), %s)", coqZint(min), zList(in), zList(k)))
			}
			emitTable(&tb, "filterFunctions_table", "(Z * list Z) * list Z", rows)
		}

		// ---- CBO / LCOM: filterClasses(classes, req) ------------------------------------------------------
		type classSite struct {
			file, recv, itemT, metricsT, field, reqT, minF, maxF, name string
			zeros                                                      bool
		}
		for _, cs := range []classSite{
			{"cbo_service.go", "CBOServiceImpl", "ClassCoupling", "CBOMetrics", "CouplingCount", "CBORequest", "MinCBO", "MaxCBO", "cbo", true},
			{"lcom_service.go", "LCOMServiceImpl", "ClassCohesion", "LCOMMetrics", "LCOM4", "LCOMRequest", "MinLCOM", "MaxLCOM", "lcom", false},
		} {
			cs := cs
			fd := findFunc(svc, cs.file, cs.recv, "filterClasses")
			if fd == nil {
				fail("service/%s: filterClasses not found", cs.file)
				continue
			}
			val := func(v Value) Value { return v.(*Struct).F["Metrics"].(*Struct).F[cs.field] }
			kept := func(min, max int64, zeros bool, vs []int64) ([]Value, error) {
				var items []Value
				for _, c := range vs {
					items = append(items, mkStruct(cs.itemT, "Name", "C", "Metrics", mkStruct(cs.metricsT, cs.field, c)))
				}
				req := mkStruct(cs.reqT, cs.minF, min, cs.maxF, max)
				if cs.zeros {
					if zeros {
						req.F["ShowZeros"] = true // *bool pointing at true
					} else {
						req.F["ShowZeros"] = nil
					}
				}
				return r.keptValues(svc, fd, cs.recv, items, req, val)
			}
			dropped := func(min, max int64, zeros bool, v int64) (bool, error) {
				k, err := kept(min, max, zeros, []int64{v})
				return len(k) == 0, err
			}
			what := "service/" + cs.file + " filterClasses"
			if op, ok := probe3(what+": value against the minimum", func(rel int64) (bool, error) { return dropped(5, 0, true, 5+rel) }); ok {
				emitOp("report_"+cs.name+"_drop_below", what+", "+cs.field+" against req."+cs.minF, op, false)
			}
			if op, ok := probe3(what+": value against the maximum", func(rel int64) (bool, error) { return dropped(0, 5, true, 5+rel) }); ok {
				emitOp("report_"+cs.name+"_drop_above", what+", "+cs.field+" against req."+cs.maxF, op, false)
			}
			if op, ok := probe3(what+": maximum against 0", func(rel int64) (bool, error) { return dropped(0, rel, true, 7) }); ok {
				emitOp("report_"+cs.name+"_max_given", what+", req."+cs.maxF+" against 0", op, false)
			}
			if cs.zeros {
				if op, ok := probe3(what+": value against 0 (ShowZeros unset)", func(rel int64) (bool, error) { return dropped(-5, 0, false, rel) }); ok {
					emitOp("report_"+cs.name+"_is_zero", what+", "+cs.field+" against 0", op, false)
				}
			}
			var rows []string
			vs := []int64{0, 1, 2, 3, 4, 5, 6, 0, 7, 9, 10, 11, 40}
			var in []Value
			for _, c := range vs {
				in = append(in, c)
			}
			for _, mm := range [][2]int64{{0, 0}, {1, 0}, {3, 0}, {0, 5}, {2, 9}, {5, 5}, {6, 3}, {0, -1}, {0, 1}} {
				for _, zeros := range []bool{false, true} {
					if !cs.zeros && zeros {
						continue
					}
					k, err := kept(mm[0], mm[1], zeros, vs)
					if err != nil {
						fail("%s: cannot be evaluated: %v", what, err)
						break
					}
					if cs.zeros {
						rows = append(rows, fmt.Sprintf("((((%s, %s), %s), %s), %s)", coqZint(mm[0]), coqZint(mm[1]), coqBool(zeros), zList(in), zList(k)))
					} else {
						rows = append(rows, fmt.Sprintf("(((%s, %s), %s), %s)", coqZint(mm[0]), coqZint(mm[1]), zList(in), zList(k)))
					}
				}
			}
			if cs.zeros {
				emitTable(&tb, "filterClasses_"+cs.name+"_table", "(((Z * Z) * bool) * list Z) * list Z", rows)
			} else {
				emitTable(&tb, "filterClasses_"+cs.name+"_table", "((Z * Z) * list Z) * list Z", rows)
			}
		}

		// ---- clones: filterClonePairs / filterCloneGroups(items, req) ---------------------------------------
		for _, cs := range [][3]string{{"filterClonePairs", "ClonePair", "pair"}, {"filterCloneGroups", "CloneGroup", "group"}} {
			cs := cs
			fd := findFunc(svc, "clone_service.go", "CloneService", cs[0])
			if fd == nil {
				fail("service/clone_service.go: %s not found", cs[0])
				continue
			}
			type it struct{ sim, typ int64 } // similarity in 1/100
			kept := func(lo, hi int64, types []int64, items []it) ([]int64, error) {
				var xs []Value
				for i, x := range items {
					xs = append(xs, mkStruct(cs[1], "ID", int64(i), "Similarity", float64(x.sim)/100, "Type", x.typ))
				}
				ts := &Slice{}
				for _, t := range types {
					ts.E = append(ts.E, t)
				}
				req := mkStruct("CloneRequest", "MinSimilarity", float64(lo)/100, "MaxSimilarity", float64(hi)/100, "CloneTypes", ts)
				ks, err := r.keptValues(svc, fd, "CloneService", xs, req, func(v Value) Value { return v.(*Struct).F["ID"] })
				var out []int64
				for _, k := range ks {
					n, _ := k.(int64)
					out = append(out, n)
				}
				return out, err
			}
			if op, ok := probe3(cs[0]+": similarity against MinSimilarity", func(rel int64) (bool, error) {
				k, err := kept(50, 100, []int64{1}, []it{{50 + rel, 1}})
				return len(k) == 0, err
			}); ok {
				emitOp("report_"+cs[2]+"_drop_below", cs[0]+", similarity against req.MinSimilarity", op, true)
			}
			if op, ok := probe3(cs[0]+": similarity against MaxSimilarity", func(rel int64) (bool, error) {
				k, err := kept(0, 50, []int64{1}, []it{{50 + rel, 1}})
				return len(k) == 0, err
			}); ok {
				emitOp("report_"+cs[2]+"_drop_above", cs[0]+", similarity against req.MaxSimilarity", op, true)
			}
			items := []it{{49, 1}, {50, 1}, {51, 2}, {80, 3}, {79, 4}, {81, 1}, {100, 1}, {100, 4}, {0, 2}, {65, 5}, {66, 0}}
			var rows []string
			for _, cfg := range []struct {
				lo, hi int64
				types  []int64
			}{{50, 100, []int64{1, 2, 3, 4}}, {50, 80, []int64{1, 2}}, {0, 100, []int64{}}, {80, 50, []int64{1, 2, 3, 4}}, {66, 100, []int64{4, 1, 5}}, {0, 100, []int64{3, 3}}} {
				k, err := kept(cfg.lo, cfg.hi, cfg.types, items)
				if err != nil {
					fail("%s: cannot be evaluated: %v", cs[0], err)
					break
				}
				var its, ts, ks []string
				for _, x := range items {
					its = append(its, fmt.Sprintf("(%s, %s)", coqQfrac(x.sim, 100), coqZint(x.typ)))
				}
				for _, t := range cfg.types {
					ts = append(ts, coqZint(t))
				}
				for _, i := range k {
					ks = append(ks, fmt.Sprintf("(%s, %s)", coqQfrac(items[i].sim, 100), coqZint(items[i].typ)))
				}
				rows = append(rows, fmt.Sprintf("((((%s, %s), [%s]), [%s]), [%s])", coqQfrac(cfg.lo, 100), coqQfrac(cfg.hi, 100), strings.Join(ts, "; "), strings.Join(its, "; "), strings.Join(ks, "; ")))
			}
			emitTable(&tb, cs[0]+"_table", "(((Q * Q) * list Z) * list (Q * Z)) * list (Q * Z)", rows)
		}

		b.WriteString("\n(* top-N lists *)\n")
		if v, ok := topN(svc, "cbo_service.go", "CBOServiceImpl", "generateSummary", "maxTopClasses"); ok {
			fmt.Fprintf(&b, "Definition report_cbo_topn : nat := %d%%nat.\n", v)
		} else {
			fail("cbo generateSummary: maxTopClasses := <int> not found")
		}
		if v, ok := topN(svc, "lcom_service.go", "LCOMServiceImpl", "generateSummary", "maxTopClasses"); ok {
			fmt.Fprintf(&b, "Definition report_lcom_topn : nat := %d%%nat.\n", v)
		} else {
			fail("lcom generateSummary: maxTopClasses := <int> not found")
		}
		writeGen("ReportConst.v", b.String())
		writeGen("ReportTables.v", tb.String())
		_ = labels

		for _, f := range [][3]string{
			{"complexity_service.go", "ComplexityServiceImpl", "generateSummary"}, {"complexity_service.go", "ComplexityServiceImpl", "filterFunctions"},
			{"complexity_service.go", "ComplexityServiceImpl", "Analyze"},
			{"dead_code_service.go", "DeadCodeServiceImpl", "generateSummary"}, {"dead_code_service.go", "DeadCodeServiceImpl", "filterFiles"},
			{"dead_code_service.go", "DeadCodeServiceImpl", "filterFindingsBySeverity"}, {"dead_code_service.go", "DeadCodeServiceImpl", "analyzeFile"},
			{"dead_code_service.go", "DeadCodeServiceImpl", "countTotalFindings"}, {"dead_code_service.go", "DeadCodeServiceImpl", "Analyze"},
			{"cbo_service.go", "CBOServiceImpl", "generateSummary"}, {"cbo_service.go", "CBOServiceImpl", "filterClasses"}, {"cbo_service.go", "CBOServiceImpl", "Analyze"},
			{"lcom_service.go", "LCOMServiceImpl", "generateSummary"}, {"lcom_service.go", "LCOMServiceImpl", "filterClasses"}, {"lcom_service.go", "LCOMServiceImpl", "Analyze"},
			{"clone_service.go", "CloneService", "createStatistics"}, {"clone_service.go", "CloneService", "filterClonePairs"},
			{"clone_service.go", "CloneService", "filterCloneGroups"},
			{"analyze_formatter.go", "AnalyzeFormatter", "writeCSV"}, {"analyze_formatter.go", "AnalyzeFormatter", "writeText"},
			{"analyze_formatter.go", "AnalyzeFormatter", "writeHTML"}, {"analyze_formatter.go", "AnalyzeFormatter", "Write"},
		} {
			recordDigest(svc, f[0], f[1], f[2])
		}
		recordDigest(dom, "dead_code.go", "FunctionDeadCode", "CalculateSeverityCounts")
		recordDigest(dom, "dead_code.go", "FunctionDeadCode", "HasFindingsAtSeverity")
		recordDigest(dom, "dead_code.go", "DeadCodeSeverity", "IsAtLeast")
		appp := loadPkg("app")
		recordDigest(appp, "analyze_usecase.go", "AnalyzeUseCase", "calculateSummary")
	})
}
