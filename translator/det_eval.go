package main

// det_eval.go: semantic reading of `less` functions (sort.Slice / sort.SliceStable comparators, named comparison
// helpers) for gen_det.go. Instead of matching the if-chain shape, the comparator is *interpreted* (goeval.go) on
// elements built from the fields the model knows; the lexicographic key list (field index, descending?) is recovered
// from dominance tests and then verified against the comparator on a grid of element pairs. Any logically equivalent
// way of writing the comparator yields the same key list; a comparator that is not a lexicographic order over the
// modelled fields is reported.

import (
	"fmt"
	"go/ast"
	"go/parser"
	"go/token"
	"go/types"
	"math/rand"
	"regexp"
	"sort"
	"strings"
)

type semField struct {
	text    string
	idx     int
	kind    string
	path    []string                    // selector path below the element
	indexed bool                        // path[0-th element]
	levels  []Value                     // raw values in ascending key order
	set     func(el *Struct, raw Value) // custom placement of the raw value (nil: by path)
}

var reElemPath = regexp.MustCompile(`§A((?:\.[A-Za-z_][A-Za-z0-9_]*)*)(\[0\])?`)

// errUnavailable: the semantic route cannot be set up for this site (the caller falls back to the syntactic reader).
type errUnavailable struct{ why string }

func (e *errUnavailable) Error() string { return e.why }

func unavailable(format string, a ...interface{}) error {
	return &errUnavailable{fmt.Sprintf(format, a...)}
}

func setPath(root *Struct, path []string, indexed bool, v Value) {
	cur := root
	for i, f := range path {
		if i == len(path)-1 {
			if indexed {
				cur.F[f] = mkSlice(v)
			} else {
				cur.F[f] = v
			}
			return
		}
		nx, _ := cur.F[f].(*Struct)
		if nx == nil {
			nx = mkStruct("")
			cur.F[f] = nx
		}
		cur = nx
	}
}

func fragOfLevel(l int) Value {
	n := int64(l)
	return mkStruct("CodeFragment", "Location", mkStruct("CodeLocation", "FilePath", fmt.Sprintf("f%d", l), "StartLine", n, "StartCol", n, "EndLine", n, "EndCol", n))
}

func keyLess(a, b Value) bool {
	switch x := a.(type) {
	case int64:
		if y, ok := b.(int64); ok {
			return x < y
		}
	case float64:
		if y, ok := b.(float64); ok {
			return x < y
		}
	case string:
		if y, ok := b.(string); ok {
			return x < y
		}
	}
	return fmt.Sprint(a) < fmt.Sprint(b)
}

// freeVarsEnv binds the variables of the enclosing function a function literal refers to.
func freeVarsEnv(in *Interp, p *pkgInfo, fd *ast.FuncDecl, lit *ast.FuncLit, recvType string) *Env {
	env := newEnv(nil)
	if fd.Recv != nil && len(fd.Recv.List) > 0 && len(fd.Recv.List[0].Names) > 0 {
		env.vars[fd.Recv.List[0].Names[0].Name] = mkStruct(recvType)
	}
	need := map[types.Object]bool{}
	ast.Inspect(lit.Body, func(n ast.Node) bool {
		if id, ok := n.(*ast.Ident); ok {
			if v, ok := p.info.Uses[id].(*types.Var); ok && !v.IsField() && v.Pos() >= fd.Pos() && v.Pos() < fd.End() && !(v.Pos() >= lit.Pos() && v.Pos() < lit.End()) {
				need[v] = true
			}
		}
		return true
	})
	// definitions `x := expr` / `var x = expr` that precede the literal, in source order
	ast.Inspect(fd.Body, func(n ast.Node) bool {
		if n == nil || n.Pos() >= lit.Pos() {
			return n == nil || n.Pos() < lit.Pos()
		}
		switch st := n.(type) {
		case *ast.AssignStmt:
			if st.Tok == token.DEFINE && len(st.Lhs) == len(st.Rhs) {
				for i, l := range st.Lhs {
					id, ok := l.(*ast.Ident)
					if !ok || !need[p.info.Defs[id]] {
						continue
					}
					func() {
						defer func() { _ = recover() }()
						env.vars[id.Name] = in.expr(p, env, st.Rhs[i])
					}()
				}
			}
		case *ast.ValueSpec:
			if len(st.Names) == len(st.Values) {
				for i, id := range st.Names {
					if !need[p.info.Defs[id]] {
						continue
					}
					func() {
						defer func() { _ = recover() }()
						env.vars[id.Name] = in.expr(p, env, st.Values[i])
					}()
				}
			}
		}
		return true
	})
	return env
}

// bindExpr makes the expression e (identifier or selector chain rooted at an identifier) evaluate to v in env.
func bindExpr(env *Env, e ast.Expr, v Value) error {
	var chain []string
	cur := unparen(e)
	for {
		switch x := cur.(type) {
		case *ast.Ident:
			if len(chain) == 0 {
				env.vars[x.Name] = v
				return nil
			}
			root, _ := env.vars[x.Name].(*Struct)
			if root == nil {
				root = mkStruct("")
				env.vars[x.Name] = root
			}
			// chain holds the selectors innermost-last, reversed
			for i := len(chain) - 1; i >= 1; i-- {
				nx, _ := root.F[chain[i]].(*Struct)
				if nx == nil {
					nx = mkStruct("")
					root.F[chain[i]] = nx
				}
				root = nx
			}
			root.F[chain[0]] = v
			return nil
		case *ast.SelectorExpr:
			chain = append(chain, x.Sel.Name)
			cur = unparen(x.X)
		default:
			return unavailable("the sorted slice is not a variable or field path")
		}
	}
}

// semanticKeys recovers the key list of a comparator.
//
//	less(a, b) evaluates the comparator on two freshly built elements.
func semanticKeys(site string, fields []*semField, less func(a, b Value) (bool, error), build func(levels []int) Value) ([]keyField, []int, error) {
	k := len(fields)
	mid := make([]int, k)
	top := make([]int, k)
	for i, f := range fields {
		top[i] = len(f.levels) - 1
		mid[i] = top[i] / 2
	}
	with := func(base []int, i, v int) []int {
		c := append([]int(nil), base...)
		c[i] = v
		return c
	}
	call := func(la, lb []int) (bool, error) { return less(build(la), build(lb)) }
	if r, err := call(mid, mid); err != nil {
		return nil, nil, unavailable("comparator cannot be evaluated: %v", err)
	} else if r {
		fail("det %s: the comparator is not irreflexive (less(x, x) holds for equal keys)", site)
		return nil, nil, fmt.Errorf("not irreflexive")
	}
	// direction of each field, varied alone
	dir := make([]int, k) // 0 = not a key, 1 = ascending, -1 = descending
	for i := range fields {
		lo, hi := with(mid, i, 0), with(mid, i, top[i])
		lt, err1 := call(lo, hi)
		gt, err2 := call(hi, lo)
		if err1 != nil || err2 != nil {
			return nil, nil, unavailable("comparator cannot be evaluated: %v %v", err1, err2)
		}
		switch {
		case lt && gt:
			fail("det %s: the comparator is not antisymmetric on field %s", site, fields[i].text)
			return nil, nil, fmt.Errorf("not antisymmetric")
		case lt:
			dir[i] = 1
		case gt:
			dir[i] = -1
		}
	}
	var keys []int
	for i := range fields {
		if dir[i] != 0 {
			keys = append(keys, i)
		}
	}
	// dominance: a is better on f and worse on g
	better := func(i int) (int, int) { // (level that sorts first, level that sorts last)
		if dir[i] > 0 {
			return 0, top[i]
		}
		return top[i], 0
	}
	dominates := func(f, g int) (bool, error) {
		bf, wf := better(f)
		bg, wg := better(g)
		a := with(with(mid, f, bf), g, wg)
		b := with(with(mid, f, wf), g, bg)
		return call(a, b)
	}
	var derr error
	sort.SliceStable(keys, func(x, y int) bool {
		d, err := dominates(keys[x], keys[y])
		if err != nil {
			derr = err
		}
		return d
	})
	if derr != nil {
		return nil, nil, unavailable("comparator cannot be evaluated: %v", derr)
	}
	// verification on a grid: every pair over {lowest, highest}^k and a sample over all levels
	expect := func(la, lb []int) bool {
		for _, i := range keys {
			if la[i] != lb[i] {
				if dir[i] > 0 {
					return la[i] < lb[i]
				}
				return la[i] > lb[i]
			}
		}
		return false
	}
	var grid [][]int
	for m := 0; m < 1<<uint(k); m++ {
		l := make([]int, k)
		for i := 0; i < k; i++ {
			if m&(1<<uint(i)) != 0 {
				l[i] = top[i]
			}
		}
		grid = append(grid, l)
	}
	rng := rand.New(rand.NewSource(20261002))
	for n := 0; n < 24; n++ {
		l := make([]int, k)
		for i := 0; i < k; i++ {
			l[i] = rng.Intn(top[i] + 1)
		}
		grid = append(grid, l)
	}
	for _, la := range grid {
		for _, lb := range grid {
			got, err := call(la, lb)
			if err != nil {
				return nil, nil, unavailable("comparator cannot be evaluated: %v", err)
			}
			if got != expect(la, lb) {
				var ks []string
				for _, i := range keys {
					ks = append(ks, fields[i].text)
				}
				fail("det %s: the comparator is not the lexicographic order over %v (levels %v vs %v: less = %v)", site, ks, la, lb, got)
				return nil, nil, fmt.Errorf("not lexicographic")
			}
		}
	}
	var out []keyField
	var idxs []int
	for _, i := range keys {
		out = append(out, keyField{text: fields[i].text, desc: dir[i] < 0})
		idxs = append(idxs, fields[i].idx)
	}
	return out, idxs, nil
}

// semanticSite reads the comparator of a sort site by evaluation. It returns an *errUnavailable when the route cannot
// be set up (the caller then uses the syntactic reader); any other error has been reported with fail().
func semanticSite(p *pkgInfo, s sortSite, fd *ast.FuncDecl) ([]keyField, error) {
	in := newInterp(p)
	var fields []*semField
	var texts []string
	for t := range s.fields {
		texts = append(texts, t)
	}
	sort.Strings(texts)
	for _, t := range texts {
		kind, ok := s.kinds[t]
		if !ok {
			return nil, unavailable("no value kind for field %s", t)
		}
		if kind == "blockend" { // dcd.getBlockEndLine(§A): the end line of the last statement of a basic block
			fields = append(fields, &semField{text: t, idx: s.fields[t], kind: kind, set: func(el *Struct, raw Value) {
				el.F["Statements"] = mkSlice(mkStruct("Node", "Location", mkStruct("Location", "StartLine", raw, "EndLine", raw)))
			}})
			continue
		}
		m := reElemPath.FindStringSubmatch(t)
		if m == nil || strings.Count(t, "§A") != 1 || m[1] == "" {
			return nil, unavailable("field %s is not a path below the element", t)
		}
		fields = append(fields, &semField{text: t, idx: s.fields[t], kind: kind, path: strings.Split(strings.TrimPrefix(m[1], "."), "."), indexed: m[2] != ""})
	}

	// the comparator and the environment it runs in
	var env *Env
	var lessFn func(a, b Value) (bool, error)
	switch s.nth {
	case -2:
		lessFn = func(a, b Value) (bool, error) { return asBool(in.call1(p, fd, mkStruct(s.recv), a, b)) }
		env = newEnv(nil)
	case -1:
		var lit *ast.FuncLit
		ast.Inspect(fd.Body, func(nd ast.Node) bool {
			as, ok := nd.(*ast.AssignStmt)
			if !ok || len(as.Lhs) != 1 || len(as.Rhs) != 1 {
				return true
			}
			id, ok1 := as.Lhs[0].(*ast.Ident)
			fl, ok2 := as.Rhs[0].(*ast.FuncLit)
			if ok1 && ok2 && id.Name == s.closure && lit == nil {
				lit = fl
			}
			return true
		})
		if lit == nil {
			return nil, unavailable("closure %s not found", s.closure)
		}
		env = freeVarsEnv(in, p, fd, lit, s.recv)
		cl := &Closure{pkg: p, lit: lit, env: env}
		lessFn = func(a, b Value) (bool, error) {
			vs, err := in.CallValue(cl, a, b)
			if err != nil || len(vs) != 1 {
				return false, fmt.Errorf("%v", err)
			}
			return asBool(vs[0], nil)
		}
	default:
		call, lit := nthSortCall(fd, s.nth)
		if lit == nil {
			return nil, unavailable("sort call %d not found", s.nth)
		}
		env = freeVarsEnv(in, p, fd, lit, s.recv)
		cl := &Closure{pkg: p, lit: lit, env: env}
		lessFn = func(a, b Value) (bool, error) {
			if err := bindExpr(env, call.Args[0], mkSlice(a, b)); err != nil {
				return false, err
			}
			vs, err := in.CallValue(cl, int64(0), int64(1))
			if err != nil || len(vs) != 1 {
				return false, fmt.Errorf("%v", err)
			}
			return asBool(vs[0], nil)
		}
	}

	// raw values per field, in ascending key order
	var tableScope *Env
	keyOf := func(f *semField, raw Value) (Value, error) {
		txt := strings.ReplaceAll(f.text, "§A", "elem__")
		e, err := parser.ParseExpr(txt)
		if err != nil {
			return nil, err
		}
		el := mkStruct("")
		if f.set != nil {
			f.set(el, raw)
		} else {
			setPath(el, f.path, f.indexed, raw)
		}
		scope := newEnv(env)
		if tableScope != nil {
			scope = newEnv(tableScope)
		}
		scope.vars["elem__"] = el
		var v Value
		err = func() (err error) {
			defer func() {
				if r := recover(); r != nil {
					err = fmt.Errorf("%v", r)
				}
			}()
			in.steps, in.depth = 0, 0
			v = in.expr(p, scope, e)
			return nil
		}()
		return v, err
	}
	for _, f := range fields {
		var cands []Value
		switch {
		case f.kind == "int" || f.kind == "blockend":
			f.levels = []Value{int64(1), int64(2), int64(3)}
			continue
		case f.kind == "float":
			f.levels = []Value{0.125, 0.375, 0.625}
			continue
		case f.kind == "str":
			f.levels = []Value{"s1", "s2", "s3"}
			continue
		case f.kind == "strs":
			f.levels = []Value{mkSlice("s1"), mkSlice("s2"), mkSlice("s3")}
			continue
		case f.kind == "frag":
			f.levels = []Value{fragOfLevel(1), fragOfLevel(2), fragOfLevel(3)}
			continue
		case strings.HasPrefix(f.kind, "keys:"):
			// the keys of a lookup table defined in the enclosing function or in the comparator itself
			tname := strings.TrimPrefix(f.kind, "keys:")
			m, _ := env.vars[tname].(*Map)
			if m == nil {
				ast.Inspect(fd.Body, func(nd ast.Node) bool {
					as, ok := nd.(*ast.AssignStmt)
					if !ok || as.Tok != token.DEFINE || len(as.Lhs) != 1 || len(as.Rhs) != 1 || m != nil {
						return true
					}
					if id, ok := as.Lhs[0].(*ast.Ident); ok && id.Name == tname {
						func() {
							defer func() { _ = recover() }()
							m, _ = in.expr(p, env, as.Rhs[0]).(*Map)
						}()
						if m != nil {
							tableScope = newEnv(env)
							tableScope.vars[tname] = m
						}
					}
					return true
				})
			}
			if m == nil {
				// no such table at this site: the field is looked at directly, if at all
				f.levels = []Value{"s1", "s2", "s3"}
				f.kind = "str"
				continue
			}
			for _, k := range sortedKeys(m) {
				cands = append(cands, k)
			}
		case strings.HasPrefix(f.kind, "consts:"):
			tn := strings.TrimPrefix(f.kind, "consts:")
			names := p.pkg.Scope().Names()
			for _, n := range names {
				if c, ok := p.pkg.Scope().Lookup(n).(*types.Const); ok && typeName(c.Type()) == tn {
					if v, ok := constToValue(c.Val(), c.Type()); ok {
						cands = append(cands, v)
					}
				}
			}
		default:
			return nil, unavailable("unknown value kind %s", f.kind)
		}
		type kv struct{ raw, key Value }
		var kvs []kv
		for _, c := range cands {
			k, err := keyOf(f, c)
			if err != nil {
				return nil, unavailable("key expression %s cannot be evaluated: %v", f.text, err)
			}
			kvs = append(kvs, kv{c, k})
		}
		sort.SliceStable(kvs, func(i, j int) bool { return keyLess(kvs[i].key, kvs[j].key) })
		for i, x := range kvs {
			if i > 0 && !keyLess(kvs[i-1].key, x.key) {
				continue
			}
			f.levels = append(f.levels, x.raw)
		}
		if len(f.levels) < 2 {
			return nil, unavailable("fewer than two distinct keys for field %s", f.text)
		}
		if len(f.levels) > 3 {
			f.levels = []Value{f.levels[0], f.levels[len(f.levels)/2], f.levels[len(f.levels)-1]}
		}
	}
	build := func(levels []int) Value {
		el := mkStruct("")
		for i, f := range fields {
			raw := f.levels[levels[i]]
			// "frag" values are shared objects: equal level = the same *CodeFragment, as in the program
			if f.set != nil {
				f.set(el, raw)
				continue
			}
			setPath(el, f.path, f.indexed, raw)
		}
		return el
	}
	keys, _, err := semanticKeys(s.name, fields, lessFn, build)
	return keys, err
}
