package main

// gen_clone.go: constants, literals, defaults and comparison operators of the clone
// detection pipeline (properties C08, C09) -> coq/Gen/CloneConst.v.
//
//   * package-level numeric constants of internal/analyzer (jaccardRejectionThreshold, Type1Clone..)
//   * the ratio literals of shouldCompareFragments
//   * fallback values `if x <= 0 { x = LIT }` in the batch loop, NewLSHIndex, computeBandKeys, NewMinHasher
//   * the comparison operators of classifyCloneType, isSignificantClone, isOverlappingLocation,
//     shouldIncludeFragment and service.filterClonePairs (as Q/Z boolean functions)
//   * MaxClonePairs / BatchSizeThreshold literals of service.createDetectorConfig

import (
	"fmt"
	"go/ast"
	"go/constant"
	"go/token"
	"go/types"
	"strings"
)

func numLits(fd *ast.FuncDecl) []string {
	var out []string
	ast.Inspect(fd, func(nd ast.Node) bool {
		bl, ok := nd.(*ast.BasicLit)
		if !ok || (bl.Kind != token.INT && bl.Kind != token.FLOAT) {
			return true
		}
		v := constant.MakeFromLiteral(bl.Value, bl.Kind, 0)
		if s, ok := coqQ(v); ok {
			out = append(out, s)
		}
		return true
	})
	return out
}

// fallbackAssigns: `ident = LIT` assignments in fd (ident -> Z literal).
func fallbackAssigns(fd *ast.FuncDecl) map[string]int64 {
	res := map[string]int64{}
	ast.Inspect(fd, func(nd ast.Node) bool {
		as, ok := nd.(*ast.AssignStmt)
		if !ok || as.Tok != token.ASSIGN || len(as.Lhs) != 1 || len(as.Rhs) != 1 {
			return true
		}
		id, ok := as.Lhs[0].(*ast.Ident)
		if !ok {
			return true
		}
		if v, ok := intLit(as.Rhs[0]); ok {
			res[id.Name] = v
		}
		return true
	})
	return res
}

func cloneQCmp(op token.Token) (string, bool) {
	switch op {
	case token.GTR:
		return "clone_Qlt b a", true // a > b
	case token.GEQ:
		return "Qle_bool b a", true
	case token.LSS:
		return "clone_Qlt a b", true
	case token.LEQ:
		return "Qle_bool a b", true
	}
	return "", false
}

func cloneZCmp(op token.Token) (string, bool) {
	switch op {
	case token.GTR:
		return "Z.ltb b a", true
	case token.GEQ:
		return "Z.leb b a", true
	case token.LSS:
		return "Z.ltb a b", true
	case token.LEQ:
		return "Z.leb a b", true
	}
	return "", false
}

// cmpOps: every ordering comparison in fd, in source order, with printed operands.
type cmpAt struct {
	op   token.Token
	x, y string
}

func cmpOps(p *pkgInfo, fd *ast.FuncDecl) []cmpAt {
	var out []cmpAt
	ast.Inspect(fd, func(nd ast.Node) bool {
		be, ok := nd.(*ast.BinaryExpr)
		if !ok {
			return true
		}
		switch be.Op {
		case token.GTR, token.GEQ, token.LSS, token.LEQ:
			out = append(out, cmpAt{be.Op, src(p, be.X), src(p, be.Y)})
		}
		return true
	})
	return out
}

// walkFieldCodes: the statement lists of parser.Node, numbered as in Clone/Walk.v (field_of_code).
var walkFieldCodes = map[string]int{"Children": 0, "Body": 1, "Orelse": 2, "Handlers": 3, "Finalbody": 4}

// rangedNodeFields: the fields F of `for .. := range <param>.F { .. }` loops of fd over its parameter
// `param`, in source order, as codes of walkFieldCodes (a field outside that table is a problem).
func rangedNodeFields(fd *ast.FuncDecl, param string) []int {
	var out []int
	add := func(sel string) {
		c, known := walkFieldCodes[sel]
		if !known {
			fail("%s ranges over %s.%s, which the walk model (Clone/Walk.v) does not know", fd.Name.Name, param, sel)
			return
		}
		out = append(out, c)
	}
	// param.<Field> selectors listed in a composite literal (a table of statement lists that is ranged over as a whole)
	litFields := func(e ast.Expr) ([]string, bool) {
		cl, ok := e.(*ast.CompositeLit)
		if !ok || len(cl.Elts) == 0 {
			return nil, false
		}
		var fs []string
		for _, el := range cl.Elts {
			se, ok := el.(*ast.SelectorExpr)
			if !ok {
				return nil, false
			}
			if id, ok := se.X.(*ast.Ident); !ok || id.Name != param {
				return nil, false
			}
			fs = append(fs, se.Sel.Name)
		}
		return fs, true
	}
	tables := map[string][]string{}
	ast.Inspect(fd, func(nd ast.Node) bool {
		if as, ok := nd.(*ast.AssignStmt); ok && len(as.Lhs) == 1 && len(as.Rhs) == 1 {
			if id, ok := as.Lhs[0].(*ast.Ident); ok {
				if fs, ok := litFields(as.Rhs[0]); ok {
					tables[id.Name] = fs
				}
			}
		}
		return true
	})
	ast.Inspect(fd, func(nd ast.Node) bool {
		rs, ok := nd.(*ast.RangeStmt)
		if !ok {
			return true
		}
		switch x := rs.X.(type) {
		case *ast.SelectorExpr:
			if id, ok := x.X.(*ast.Ident); ok && id.Name == param {
				add(x.Sel.Name)
			}
		case *ast.Ident:
			for _, f := range tables[x.Name] {
				add(f)
			}
		case *ast.CompositeLit:
			if fs, ok := litFields(x); ok {
				for _, f := range fs {
					add(f)
				}
			}
		}
		return true
	})
	return out
}

func natList(xs []int) string {
	var sb strings.Builder
	sb.WriteString("(")
	for _, x := range xs {
		fmt.Fprintf(&sb, "%d :: ", x)
	}
	sb.WriteString("nil)%nat")
	return sb.String()
}

func init() {
	generators = append(generators, func() {
		p := loadPkg("internal/analyzer")
		sp := loadPkg("service")
		if p == nil || sp == nil {
			return
		}
		var b strings.Builder
		b.WriteString("From Coq Require Import QArith.\nDefinition clone_Qlt (a b : Q) : bool := negb (Qle_bool b a).\n")
		if n := emitConsts(&b, p, "analyzer"); n == 0 {
			fail("no constants extracted from internal/analyzer")
		}
		get := func(pk *pkgInfo, file, recv, name string) *ast.FuncDecl {
			fd := findFunc(pk, file, recv, name)
			if fd == nil {
				fail("function not found: %s %s.%s", file, recv, name)
			}
			return fd
		}
		emitQcmp := func(name string, c cmpAt) {
			s, _ := cloneQCmp(c.op)
			fmt.Fprintf(&b, "(* %s %s %s *)\nDefinition %s (a b : Q) : bool := %s.\n", c.x, c.op, c.y, name, s)
		}
		emitZcmp := func(name string, c cmpAt) {
			s, _ := cloneZCmp(c.op)
			fmt.Fprintf(&b, "(* %s %s %s *)\nDefinition %s (a b : Z) : bool := %s.\n", c.x, c.op, c.y, name, s)
		}

		// shouldCompareFragments: literals 2.0, 0, 0.5, 0.5, 0.5 and the comparisons
		if fd := get(p, "clone_detector.go", "CloneDetector", "shouldCompareFragments"); fd != nil {
			l := numLits(fd)
			cs := cmpOps(p, fd)
			if len(l) != 5 || len(cs) != 4 {
				fail("shouldCompareFragments: expected 5 numeric literals and 4 comparisons, got %d, %d", len(l), len(cs))
			} else {
				fmt.Fprintf(&b, "Definition clone_sc_avg_div : Q := %s.\nDefinition clone_sc_avg_pos : Q := %s.\nDefinition clone_sc_size_ratio : Q := %s.\n"+
					"Definition clone_sc_line_ratio1 : Q := %s.\nDefinition clone_sc_line_ratio2 : Q := %s.\n", l[0], l[1], l[2], l[3], l[4])
				emitQcmp("clone_sc_cmp_avgpos", cs[0])
				emitQcmp("clone_sc_cmp_size", cs[1])
				emitQcmp("clone_sc_cmp_line1", cs[2])
				emitQcmp("clone_sc_cmp_line2", cs[3])
			}
		}
		// classifyCloneType, isOverlappingLocation, shouldIncludeFragment: read by evaluation (goeval.go), not by shape
		cloneDecisions(&b, p, sp)
		if fd := get(p, "clone_detector.go", "CloneDetector", "tryCreateClonePair"); fd != nil {
			cs := cmpOps(p, fd)
			if len(cs) != 1 {
				fail("tryCreateClonePair: expected 1 comparison, got %d", len(cs))
			} else {
				emitQcmp("clone_try_cmp_min", cs[0])
			}
		}
		if fd := get(p, "clone_detector.go", "CloneDetector", "addPairWithLimit"); fd != nil {
			cs := cmpOps(p, fd)
			// len(pairs) < maxPairs ; pairs[i].Sim > pairs[j].Sim ; newPair.Sim > worst ; pairs[i].Sim > pairs[j].Sim
			if len(cs) != 4 {
				fail("addPairWithLimit: expected 4 comparisons, got %d", len(cs))
			} else {
				emitZcmp("clone_add_cmp_room", cs[0])
				emitQcmp("clone_add_cmp_better", cs[2])
			}
		}
		if fd := get(p, "clone_detector.go", "CloneDetector", "detectClonePairsWithBatchingContext"); fd != nil {
			fa := fallbackAssigns(fd)
			mp, ok1 := fa["maxPairs"]
			bs, ok2 := fa["batchSize"]
			if !ok1 || !ok2 {
				fail("batch loop: fallback assignments maxPairs/batchSize not found")
			}
			fmt.Fprintf(&b, "Definition clone_batch_default_maxPairs : Z := (%d)%%Z.\nDefinition clone_batch_default_batchSize : Z := (%d)%%Z.\n", mp, bs)
		}
		if fd := get(p, "clone_detector.go", "CloneDetector", "DetectClonesWithLSH"); fd != nil {
			// minhashThreshold clamp: < 0 -> 0, > 1 -> 1 ; est < minhashThreshold
			n := 0
			for _, c := range cmpOps(p, fd) {
				if c.x == "est" && c.y == "minhashThreshold" {
					emitQcmp("clone_lsh_cmp_est", c)
					n++
				}
			}
			if n != 1 {
				fail("DetectClonesWithLSH: comparison est ? minhashThreshold not found exactly once")
			}
		}
		if fd := get(p, "lsh_index.go", "", "NewLSHIndex"); fd != nil {
			fa := fallbackAssigns(fd)
			fmt.Fprintf(&b, "Definition clone_lsh_default_bands : Z := (%d)%%Z.\nDefinition clone_lsh_default_rows : Z := (%d)%%Z.\n", fa["bands"], fa["rows"])
			if fa["bands"] == 0 || fa["rows"] == 0 {
				fail("NewLSHIndex: fallback bands/rows not found")
			}
		}
		if fd := get(p, "lsh_index.go", "LSHIndex", "computeBandKeys"); fd != nil {
			// the band width actually used: `if total > 0 && r > total { r = total }` (absent: r unchanged)
			clamp := false
			ast.Inspect(fd, func(nd ast.Node) bool {
				is, ok := nd.(*ast.IfStmt)
				if !ok || len(is.Body.List) != 1 {
					return true
				}
				if as, ok := is.Body.List[0].(*ast.AssignStmt); ok && src(p, as) == "r = total" && src(p, is.Cond) == "total > 0 && r > total" {
					clamp = true
				}
				return true
			})
			if clamp {
				b.WriteString("Definition clone_lsh_rows_used (r total : Z) : Z := if Z.ltb 0 total && Z.ltb total r then total else r.\n")
			} else {
				b.WriteString("Definition clone_lsh_rows_used (r total : Z) : Z := r.\n")
			}
			fa := fallbackAssigns(fd)
			if fa["r"] != 4 || fa["b"] != 32 {
				fmt.Fprintf(&b, "(* computeBandKeys fallbacks r=%d b=%d *)\n", fa["r"], fa["b"])
			}
		}
		if fd := get(p, "minhash.go", "", "NewMinHasher"); fd != nil {
			fa := fallbackAssigns(fd)
			fmt.Fprintf(&b, "Definition clone_minhash_default_hashes : Z := (%d)%%Z.\n", fa["numHashes"])
			if fa["numHashes"] == 0 {
				fail("NewMinHasher: fallback numHashes not found")
			}
		}
		// service: createDetectorConfig literals (filterClonePairs is read by evaluation in cloneDecisions)
		if fd := get(sp, "clone_service.go", "CloneService", "createDetectorConfig"); fd != nil {
			f := compositeFields(fd, "analyzer.CloneDetectorConfig")
			for _, k := range []string{"MaxClonePairs", "BatchSizeThreshold"} {
				if v, ok := intLit(f[k]); ok {
					fmt.Fprintf(&b, "Definition clone_service_%s : Z := (%d)%%Z.\n", k, v)
				} else {
					fail("createDetectorConfig: %s is not an integer literal", k)
				}
			}
			for _, k := range []string{"BatchSizeLarge", "BatchSizeSmall", "LargeProjectSize"} {
				if _, present := f[k]; present {
					fail("createDetectorConfig now sets %s (model assumes it stays 0)", k)
				}
			}
		}
		// the statement lists the fragment walks follow, and the lists the compared tree is built from
		for _, w := range []struct{ name, file, recv, fn, param string }{
			{"clone_walk_fields", "clone_detector.go", "CloneDetector", "extractFragmentsRecursive", "node"},
			{"clone_walk_src_fields", "clone_detector.go", "CloneDetector", "extractFragmentsRecursiveWithSource", "node"},
			{"clone_tree_fields", "apted_tree.go", "TreeConverter", "ConvertAST", "astNode"},
		} {
			if fd := get(p, w.file, w.recv, w.fn); fd != nil {
				fs := rangedNodeFields(fd, w.param)
				if len(fs) == 0 {
					fail("%s: no `range %s.<list>` loop found", w.fn, w.param)
				}
				fmt.Fprintf(&b, "(* %s: range loops over %s.<list>, in source order; 0 Children, 1 Body, 2 Orelse, 3 Handlers, 4 Finalbody *)\n"+
					"Definition %s : list nat := %s.\n", w.fn, w.param, w.name, natList(fs))
			}
		}
		writeGen("CloneConst.v", b.String())

		for _, f := range []string{"shouldIncludeFragment", "extractFragmentsRecursive", "extractFragmentsRecursiveWithSource", "detectClonePairsWithContext",
			"detectClonePairsStandardWithContext", "detectClonePairsWithBatchingContext", "calculateBatchSize",
			"shouldCompareFragments", "compareFragments", "compareWithAPTED", "compareFragmentsWithClassifier", "classifyCloneType",
			"isSignificantClone", "isOverlappingLocation", "tryCreateClonePair", "addPairWithLimit", "limitAndSortClonePairs",
			"DetectClonesWithLSH"} {
			recordDigest(p, "clone_detector.go", "CloneDetector", f)
		}
		for _, f := range []string{"computeBandKeys", "FindCandidates", "addToBuckets"} {
			recordDigest(p, "lsh_index.go", "LSHIndex", f)
		}
		for _, f := range []string{"ComputeSignature", "EstimateJaccardSimilarity"} {
			recordDigest(p, "minhash.go", "MinHasher", f)
		}
		recordDigest(p, "syntactic_similarity.go", "", "jaccardSimilarity")
		recordDigest(p, "apted_tree.go", "TreeConverter", "ConvertAST")
		recordDigest(sp, "clone_service.go", "CloneService", "filterClonePairs")
		recordDigest(sp, "clone_service.go", "CloneService", "createDetectorConfig")
		dp := loadPkg("domain")
		recordDigest(dp, "clone.go", "CloneRequest", "Validate")
		recordDigest(dp, "clone.go", "", "ShouldUseLSH")
	})
}

// ---------------------------------------------------------------------------------------------------
// decision functions read by evaluation
// ---------------------------------------------------------------------------------------------------

// probe3 evaluates f at "left operand one below / equal to / one above the right operand" and names the comparison.
func probe3(what string, f func(rel int64) (bool, error)) (token.Token, bool) {
	var r [3]bool
	for i, rel := range []int64{-1, 0, 1} {
		v, err := f(rel)
		if err != nil {
			fail("%s: cannot be evaluated: %v", what, err)
			return token.ILLEGAL, false
		}
		r[i] = v
	}
	op, ok := inferCmp(r[0], r[1], r[2])
	if !ok {
		fail("%s: the code does not behave like a comparison of the two modelled operands (below/equal/above -> %v/%v/%v)", what, r[0], r[1], r[2])
	}
	return op, ok
}

func asBool(v Value, err error) (bool, error) {
	if err != nil {
		return false, err
	}
	b, ok := v.(bool)
	if !ok {
		return false, fmt.Errorf("result is %T, not a bool", v)
	}
	return b, nil
}

func asInt(v Value, err error) (int64, error) {
	if err != nil {
		return 0, err
	}
	n, ok := v.(int64)
	if !ok {
		return 0, fmt.Errorf("result is %T, not an integer", v)
	}
	return n, nil
}

func asString(v Value, err error) (string, error) {
	if err != nil {
		return "", err
	}
	s, ok := v.(string)
	if !ok {
		return "", fmt.Errorf("result is %T, not a string", v)
	}
	return s, nil
}

func cloneDecisions(b *strings.Builder, p, sp *pkgInfo) {
	in := newInterp(p, sp)
	const file, recv = "clone_detector.go", "CloneDetector"
	pct := func(n int64) float64 { return float64(n) / 100 }
	detector := func(t1, t2, t3, t4, minNodes, minLines int64) *Struct {
		return mkStruct("CloneDetector", "cloneDetectorConfig", mkStruct("CloneDetectorConfig",
			"Type1Threshold", pct(t1), "Type2Threshold", pct(t2), "Type3Threshold", pct(t3), "Type4Threshold", pct(t4),
			"MinNodes", minNodes, "MinLines", minLines))
	}
	emitQ := func(name, comment string, op token.Token) {
		s, ok := cloneQCmp(op)
		if !ok {
			fail("%s: comparison %s has no Q rendering", name, op)
			return
		}
		fmt.Fprintf(b, "(* %s: behaves as a %s b *)\nDefinition %s (a b : Q) : bool := %s.\n", comment, op, name, s)
	}
	emitZ := func(name, comment string, op token.Token) {
		s, ok := cloneZCmp(op)
		if !ok {
			fail("%s: comparison %s has no Z rendering", name, op)
			return
		}
		fmt.Fprintf(b, "(* %s: behaves as a %s b *)\nDefinition %s (a b : Z) : bool := %s.\n", comment, op, name, s)
	}

	// ---- classifyCloneType(similarity, distance) -----------------------------------------------
	if fd := findFunc(p, file, recv, "classifyCloneType"); fd == nil {
		fail("function not found: %s %s.classifyCloneType", file, recv)
	} else {
		classify := func(cd *Struct, s int64) (int64, error) { return asInt(in.call1(p, fd, cd, pct(s), float64(0))) }
		thr := []int64{90, 80, 70, 60}
		cd := detector(thr[0], thr[1], thr[2], thr[3], 1, 1)
		// the code of each clone type, through go/types
		codes := make([]int64, 4)
		okCodes := true
		for i := range codes {
			c, _ := p.pkg.Scope().Lookup(fmt.Sprintf("Type%dClone", i+1)).(*types.Const)
			if c == nil {
				fail("classifyCloneType: constant Type%dClone not found", i+1)
				okCodes = false
				continue
			}
			v, _ := constToValue(c.Val(), c.Type())
			codes[i], _ = v.(int64)
		}
		if okCodes {
			for i := 0; i < 4; i++ {
				i := i
				op, ok := probe3(fmt.Sprintf("classifyCloneType: similarity against Type%dThreshold", i+1), func(rel int64) (bool, error) {
					c, err := classify(cd, thr[i]+rel)
					return c == codes[i], err
				})
				if ok {
					emitQ(fmt.Sprintf("clone_classify_cmp%d", i+1), fmt.Sprintf("classifyCloneType, similarity a against Type%dThreshold b", i+1), op)
				}
			}
		}
		// decision table: (similarity, (t1, t2, t3, t4)) -> clone type code (0 = not a clone)
		var rows []string
		for _, ts := range [][4]int64{{90, 80, 70, 60}, {98, 95, 85, 70}, {80, 80, 80, 80}, {60, 70, 80, 90}, {100, 50, 50, 0}, {70, 90, 60, 80}} {
			cdt := detector(ts[0], ts[1], ts[2], ts[3], 1, 1)
			seen := map[int64]bool{}
			var ss []int64
			for _, t := range append([]int64{0, 100, 101, -1, 55}, ts[:]...) {
				for _, d := range []int64{-1, 0, 1} {
					if !seen[t+d] {
						seen[t+d] = true
						ss = append(ss, t+d)
					}
				}
			}
			for _, s := range ss {
				c, err := classify(cdt, s)
				if err != nil {
					fail("classifyCloneType: cannot be evaluated: %v", err)
					rows = nil
					break
				}
				rows = append(rows, fmt.Sprintf("((%s, (%s, %s, %s, %s)), %s)", coqQfrac(s, 100), coqQfrac(ts[0], 100), coqQfrac(ts[1], 100),
					coqQfrac(ts[2], 100), coqQfrac(ts[3], 100), coqZint(c)))
			}
		}
		emitTable(b, "classifyCloneType_table", "(Q * (Q * Q * Q * Q)) * Z", rows)
	}

	// ---- isOverlappingLocation(loc1, loc2) ------------------------------------------------------
	if fd := findFunc(p, file, recv, "isOverlappingLocation"); fd == nil {
		fail("function not found: %s %s.isOverlappingLocation", file, recv)
	} else {
		cd := detector(90, 80, 70, 60, 1, 1)
		loc := func(f string, s, e int64) *Struct {
			return mkStruct("CodeLocation", "FilePath", f, "StartLine", s, "EndLine", e, "StartCol", int64(0), "EndCol", int64(0))
		}
		overlap := func(a, c *Struct) (bool, error) { return asBool(in.call1(p, fd, cd, a, c)) }
		// cmp1 a b: "loc1 ends (a) before loc2 starts (b)" makes the ranges disjoint; the other clause is kept false
		if op, ok := probe3("isOverlappingLocation: loc1.EndLine against loc2.StartLine", func(rel int64) (bool, error) {
			o, err := overlap(loc("f", 10, 20+rel), loc("f", 20, 100))
			return !o, err
		}); ok {
			emitZ("clone_overlap_cmp1", "isOverlappingLocation, loc1.EndLine a against loc2.StartLine b (true = disjoint)", op)
		}
		if op, ok := probe3("isOverlappingLocation: loc2.EndLine against loc1.StartLine", func(rel int64) (bool, error) {
			o, err := overlap(loc("f", 20, 100), loc("f", 10, 20+rel))
			return !o, err
		}); ok {
			emitZ("clone_overlap_cmp2", "isOverlappingLocation, loc2.EndLine a against loc1.StartLine b (true = disjoint)", op)
		}
		// decision table: ((same file, (start1, end1)), (start2, end2)) -> overlapping
		var rows []string
		bad := false
		for _, same := range []bool{true, false} {
			hi := int64(4)
			if !same {
				hi = 2
			}
			for s1 := int64(1); s1 <= hi && !bad; s1++ {
				for e1 := int64(1); e1 <= hi && !bad; e1++ {
					for s2 := int64(1); s2 <= hi && !bad; s2++ {
						for e2 := int64(1); e2 <= hi; e2++ {
							f2 := "f"
							if !same {
								f2 = "g"
							}
							o, err := overlap(loc("f", s1, e1), loc(f2, s2, e2))
							if err != nil {
								fail("isOverlappingLocation: cannot be evaluated: %v", err)
								bad = true
								break
							}
							rows = append(rows, fmt.Sprintf("(((%s, (%s, %s)), (%s, %s)), %s)", coqBool(same), coqZint(s1), coqZint(e1), coqZint(s2), coqZint(e2), coqBool(o)))
						}
					}
				}
			}
		}
		if bad {
			rows = nil
		}
		emitTable(b, "isOverlappingLocation_table", "((bool * (Z * Z)) * (Z * Z)) * bool", rows)
	}

	// ---- shouldIncludeFragment(fragment) --------------------------------------------------------
	if fd := findFunc(p, file, recv, "shouldIncludeFragment"); fd == nil {
		fail("function not found: %s %s.shouldIncludeFragment", file, recv)
	} else {
		include := func(size, lines, minNodes, minLines int64) (bool, error) {
			return asBool(in.call1(p, fd, detector(90, 80, 70, 60, minNodes, minLines), mkStruct("CodeFragment", "Size", size, "LineCount", lines)))
		}
		if op, ok := probe3("shouldIncludeFragment: fragment.Size against MinNodes", func(rel int64) (bool, error) {
			o, err := include(20+rel, 1000, 20, 5)
			return !o, err
		}); ok {
			emitZ("clone_include_cmp_nodes", "shouldIncludeFragment, fragment.Size a against MinNodes b (true = rejected)", op)
		}
		if op, ok := probe3("shouldIncludeFragment: fragment.LineCount against MinLines", func(rel int64) (bool, error) {
			o, err := include(1000, 5+rel, 20, 5)
			return !o, err
		}); ok {
			emitZ("clone_include_cmp_lines", "shouldIncludeFragment, fragment.LineCount a against MinLines b (true = rejected)", op)
		}
		// decision table: ((size, lines), (minNodes, minLines)) -> included
		var rows []string
		for _, m := range [][2]int64{{20, 5}, {1, 1}, {5, 20}, {7, 7}} {
			for _, ds := range []int64{-1, 0, 1} {
				for _, dl := range []int64{-1, 0, 1} {
					o, err := include(m[0]+ds, m[1]+dl, m[0], m[1])
					if err != nil {
						fail("shouldIncludeFragment: cannot be evaluated: %v", err)
						continue
					}
					rows = append(rows, fmt.Sprintf("(((%s, %s), (%s, %s)), %s)", coqZint(m[0]+ds), coqZint(m[1]+dl), coqZint(m[0]), coqZint(m[1]), coqBool(o)))
				}
			}
		}
		emitTable(b, "shouldIncludeFragment_table", "((Z * Z) * (Z * Z)) * bool", rows)
	}

	// ---- isSignificantClone(pair) ----------------------------------------------------------------------
	if fd := findFunc(p, file, recv, "isSignificantClone"); fd == nil {
		fail("function not found: %s %s.isSignificantClone", file, recv)
	} else {
		// similarities in 1/100, distances in 1/10
		sig := func(simThr, t4, maxDist, minNodes, sim, dist, size1, size2 int64) (bool, error) {
			cd := mkStruct("CloneDetector", "cloneDetectorConfig", mkStruct("CloneDetectorConfig", "SimilarityThreshold", pct(simThr), "Type4Threshold", pct(t4),
				"MaxEditDistance", float64(maxDist)/10, "MinNodes", minNodes))
			pair := mkStruct("ClonePair", "Similarity", pct(sim), "Distance", float64(dist)/10,
				"Fragment1", mkStruct("CodeFragment", "Size", size1), "Fragment2", mkStruct("CodeFragment", "Size", size2))
			return asBool(in.call1(p, fd, cd, pair))
		}
		not := func(v bool, err error) (bool, error) { return !v, err }
		if op, ok := probe3("isSignificantClone: SimilarityThreshold against 0", func(rel int64) (bool, error) {
			return not(sig(rel, 60, 0, 1, 30, 0, 50, 50))
		}); ok {
			emitQ("clone_sig_cmp_unset", "isSignificantClone, SimilarityThreshold a against 0 (true = unset, Type4Threshold is used)", op)
		}
		if op, ok := probe3("isSignificantClone: similarity against the threshold", func(rel int64) (bool, error) {
			return not(sig(50, 60, 0, 1, 50+rel, 0, 50, 50))
		}); ok {
			emitQ("clone_sig_cmp_below", "isSignificantClone, pair.Similarity a against the minimum b (true = rejected)", op)
		}
		if op, ok := probe3("isSignificantClone: MaxEditDistance against 0", func(rel int64) (bool, error) {
			return not(sig(50, 60, rel*10, 1, 90, 50, 50, 50))
		}); ok {
			emitQ("clone_sig_cmp_distset", "isSignificantClone, MaxEditDistance a against 0 (true = a limit is set)", op)
		}
		if op, ok := probe3("isSignificantClone: distance against MaxEditDistance", func(rel int64) (bool, error) {
			return not(sig(50, 60, 50, 1, 90, 50+rel, 50, 50))
		}); ok {
			emitQ("clone_sig_cmp_dist", "isSignificantClone, pair.Distance a against MaxEditDistance b (true = rejected)", op)
		}
		if op, ok := probe3("isSignificantClone: smaller fragment size against MinNodes", func(rel int64) (bool, error) {
			return sig(50, 60, 0, 10, 90, 0, 10+rel, 50)
		}); ok {
			emitZ("clone_sig_cmp_size", "isSignificantClone, min(size1, size2) a against MinNodes b (true = accepted)", op)
		}
		// decision table: ((((SimilarityThreshold, Type4Threshold), MaxEditDistance), MinNodes), ((similarity, distance), (size1, size2))) -> significant
		var rows []string
		bad := false
		for _, c := range [][4]int64{{50, 60, 0, 10}, {0, 60, 0, 10}, {-1, 60, 30, 10}, {70, 60, 30, 1}, {1, 99, 0, 10}} {
			for _, sd := range [][2]int64{{c[0] - 1, 0}, {c[0], 0}, {c[0] + 1, 29}, {c[1] - 1, 30}, {c[1], 30}, {c[1] + 1, 31}, {100, 500}, {100, 0}} {
				for _, sz := range [][2]int64{{c[3] - 1, 50}, {c[3], c[3]}, {50, c[3] + 1}, {50, c[3] - 1}} {
					v, err := sig(c[0], c[1], c[2], c[3], sd[0], sd[1], sz[0], sz[1])
					if err != nil {
						if !bad {
							fail("isSignificantClone: cannot be evaluated: %v", err)
						}
						bad = true
						continue
					}
					rows = append(rows, fmt.Sprintf("(((((%s, %s), %s), %s), ((%s, %s), (%s, %s))), %s)", coqQfrac(c[0], 100), coqQfrac(c[1], 100), coqQfrac(c[2], 10), coqZint(c[3]),
						coqQfrac(sd[0], 100), coqQfrac(sd[1], 10), coqZint(sz[0]), coqZint(sz[1]), coqBool(v)))
				}
			}
		}
		if bad {
			rows = nil
		}
		emitTable(b, "isSignificantClone_table", "((((Q * Q) * Q) * Z) * ((Q * Q) * (Z * Z))) * bool", rows)
	}

	// ---- service.CloneService.filterClonePairs(pairs, req) -------------------------------------------------
	if fd := findFunc(sp, "clone_service.go", "CloneService", "filterClonePairs"); fd == nil {
		fail("function not found: clone_service.go CloneService.filterClonePairs")
	} else {
		type it struct{ sim, typ int64 }
		kept := func(lo, hi int64, types []int64, items []it) ([]int64, error) {
			xs := &Slice{}
			for i, x := range items {
				xs.E = append(xs.E, mkStruct("ClonePair", "ID", int64(i), "Similarity", pct(x.sim), "Type", x.typ))
			}
			ts := &Slice{}
			for _, t := range types {
				ts.E = append(ts.E, t)
			}
			v, err := in.call1(sp, fd, mkStruct("CloneService"), xs, mkStruct("CloneRequest", "MinSimilarity", pct(lo), "MaxSimilarity", pct(hi), "CloneTypes", ts))
			if err != nil {
				return nil, err
			}
			var out []int64
			if s, _ := v.(*Slice); s != nil {
				for _, e := range s.E {
					n, _ := e.(*Struct).F["ID"].(int64)
					out = append(out, n)
				}
			}
			return out, nil
		}
		if op, ok := probe3("filterClonePairs: similarity against MinSimilarity", func(rel int64) (bool, error) {
			k, err := kept(50, 100, []int64{1}, []it{{50 + rel, 1}})
			return len(k) == 0, err
		}); ok {
			emitQ("clone_filter_cmp_min", "filterClonePairs, pair.Similarity a against req.MinSimilarity b (true = dropped)", op)
		}
		if op, ok := probe3("filterClonePairs: similarity against MaxSimilarity", func(rel int64) (bool, error) {
			k, err := kept(0, 50, []int64{1}, []it{{50 + rel, 1}})
			return len(k) == 0, err
		}); ok {
			emitQ("clone_filter_cmp_max", "filterClonePairs, pair.Similarity a against req.MaxSimilarity b (true = dropped)", op)
		}
		// decision table over the four clone types: (((min, max), enabled types), pairs (similarity, type)) -> kept pairs
		items := []it{{49, 1}, {50, 1}, {51, 2}, {80, 3}, {79, 4}, {81, 1}, {100, 1}, {100, 4}, {0, 2}, {65, 3}}
		var rows []string
		for _, cfg := range []struct {
			lo, hi int64
			types  []int64
		}{{50, 100, []int64{1, 2, 3, 4}}, {50, 80, []int64{1, 2}}, {0, 100, []int64{}}, {80, 50, []int64{1, 2, 3, 4}}, {66, 100, []int64{4, 1}}, {0, 100, []int64{3, 3}}} {
			k, err := kept(cfg.lo, cfg.hi, cfg.types, items)
			if err != nil {
				fail("filterClonePairs: cannot be evaluated: %v", err)
				break
			}
			var its, ts, ks []string
			for _, x := range items {
				its = append(its, fmt.Sprintf("(%s, %s)", coqQfrac(x.sim, 100), coqZint(x.typ)))
			}
			for _, t := range cfg.types {
				ts = append(ts, coqZint(t))
			}
			for _, i := range k {
				ks = append(ks, fmt.Sprintf("(%s, %s)", coqQfrac(items[i].sim, 100), coqZint(items[i].typ)))
			}
			rows = append(rows, fmt.Sprintf("((((%s, %s), [%s]), [%s]), [%s])", coqQfrac(cfg.lo, 100), coqQfrac(cfg.hi, 100), strings.Join(ts, "; "), strings.Join(its, "; "), strings.Join(ks, "; ")))
		}
		emitTable(b, "serviceFilterClonePairs_table", "(((Q * Q) * list Z) * list (Q * Z)) * list (Q * Z)", rows)
	}
}
