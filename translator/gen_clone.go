package main

// gen_clone.go: constants, literals, defaults and comparison operators of the clone
// detection pipeline (properties C08, C09) -> coq/Gen/CloneConst.v.
//
//   * package-level numeric constants of internal/analyzer (jaccardRejectionThreshold, Type1Clone..)
//   * the ratio literals of shouldCompareFragments
//   * fallback values `if x <= 0 { x = LIT }` in the batch loop, NewLSHIndex, computeBandKeys, NewMinHasher
//   * the comparison operators of classifyCloneType, isSignificantClone, isOverlappingLocation,
//     shouldIncludeFragment and service.filterClonePairs (as Q/Z boolean functions)
//   * MaxClonePairs / BatchSizeThreshold literals of service.createDetectorConfig

import (
	"fmt"
	"go/ast"
	"go/constant"
	"go/token"
	"strings"
)

func numLits(fd *ast.FuncDecl) []string {
	var out []string
	ast.Inspect(fd, func(nd ast.Node) bool {
		bl, ok := nd.(*ast.BasicLit)
		if !ok || (bl.Kind != token.INT && bl.Kind != token.FLOAT) {
			return true
		}
		v := constant.MakeFromLiteral(bl.Value, bl.Kind, 0)
		if s, ok := coqQ(v); ok {
			out = append(out, s)
		}
		return true
	})
	return out
}

// fallbackAssigns: `ident = LIT` assignments in fd (ident -> Z literal).
func fallbackAssigns(fd *ast.FuncDecl) map[string]int64 {
	res := map[string]int64{}
	ast.Inspect(fd, func(nd ast.Node) bool {
		as, ok := nd.(*ast.AssignStmt)
		if !ok || as.Tok != token.ASSIGN || len(as.Lhs) != 1 || len(as.Rhs) != 1 {
			return true
		}
		id, ok := as.Lhs[0].(*ast.Ident)
		if !ok {
			return true
		}
		if v, ok := intLit(as.Rhs[0]); ok {
			res[id.Name] = v
		}
		return true
	})
	return res
}

func cloneQCmp(op token.Token) (string, bool) {
	switch op {
	case token.GTR:
		return "clone_Qlt b a", true // a > b
	case token.GEQ:
		return "Qle_bool b a", true
	case token.LSS:
		return "clone_Qlt a b", true
	case token.LEQ:
		return "Qle_bool a b", true
	}
	return "", false
}

func cloneZCmp(op token.Token) (string, bool) {
	switch op {
	case token.GTR:
		return "Z.ltb b a", true
	case token.GEQ:
		return "Z.leb b a", true
	case token.LSS:
		return "Z.ltb a b", true
	case token.LEQ:
		return "Z.leb a b", true
	}
	return "", false
}

// cmpOps: every ordering comparison in fd, in source order, with printed operands.
type cmpAt struct {
	op   token.Token
	x, y string
}

func cmpOps(p *pkgInfo, fd *ast.FuncDecl) []cmpAt {
	var out []cmpAt
	ast.Inspect(fd, func(nd ast.Node) bool {
		be, ok := nd.(*ast.BinaryExpr)
		if !ok {
			return true
		}
		switch be.Op {
		case token.GTR, token.GEQ, token.LSS, token.LEQ:
			out = append(out, cmpAt{be.Op, src(p, be.X), src(p, be.Y)})
		}
		return true
	})
	return out
}

func init() {
	generators = append(generators, func() {
		p := loadPkg("internal/analyzer")
		sp := loadPkg("service")
		if p == nil || sp == nil {
			return
		}
		var b strings.Builder
		b.WriteString("From Coq Require Import QArith.\nDefinition clone_Qlt (a b : Q) : bool := negb (Qle_bool b a).\n")
		if n := emitConsts(&b, p, "analyzer"); n == 0 {
			fail("no constants extracted from internal/analyzer")
		}
		get := func(pk *pkgInfo, file, recv, name string) *ast.FuncDecl {
			fd := findFunc(pk, file, recv, name)
			if fd == nil {
				fail("function not found: %s %s.%s", file, recv, name)
			}
			return fd
		}
		emitQcmp := func(name string, c cmpAt) {
			s, _ := cloneQCmp(c.op)
			fmt.Fprintf(&b, "(* %s %s %s *)\nDefinition %s (a b : Q) : bool := %s.\n", c.x, c.op, c.y, name, s)
		}
		emitZcmp := func(name string, c cmpAt) {
			s, _ := cloneZCmp(c.op)
			fmt.Fprintf(&b, "(* %s %s %s *)\nDefinition %s (a b : Z) : bool := %s.\n", c.x, c.op, c.y, name, s)
		}

		// shouldCompareFragments: literals 2.0, 0, 0.5, 0.5, 0.5 and the comparisons
		if fd := get(p, "clone_detector.go", "CloneDetector", "shouldCompareFragments"); fd != nil {
			l := numLits(fd)
			cs := cmpOps(p, fd)
			if len(l) != 5 || len(cs) != 4 {
				fail("shouldCompareFragments: expected 5 numeric literals and 4 comparisons, got %d, %d", len(l), len(cs))
			} else {
				fmt.Fprintf(&b, "Definition clone_sc_avg_div : Q := %s.\nDefinition clone_sc_avg_pos : Q := %s.\nDefinition clone_sc_size_ratio : Q := %s.\n"+
					"Definition clone_sc_line_ratio1 : Q := %s.\nDefinition clone_sc_line_ratio2 : Q := %s.\n", l[0], l[1], l[2], l[3], l[4])
				emitQcmp("clone_sc_cmp_avgpos", cs[0])
				emitQcmp("clone_sc_cmp_size", cs[1])
				emitQcmp("clone_sc_cmp_line1", cs[2])
				emitQcmp("clone_sc_cmp_line2", cs[3])
			}
		}
		// classifyCloneType: four comparisons similarity OP threshold
		if fd := get(p, "clone_detector.go", "CloneDetector", "classifyCloneType"); fd != nil {
			cs := cmpOps(p, fd)
			if len(cs) != 4 {
				fail("classifyCloneType: expected 4 comparisons, got %d", len(cs))
			} else {
				for i, c := range cs {
					if c.x != "similarity" || !strings.HasSuffix(c.y, fmt.Sprintf("Type%dThreshold", i+1)) {
						fail("classifyCloneType: comparison %d is %s %s %s", i, c.x, c.op, c.y)
					}
					emitQcmp(fmt.Sprintf("clone_classify_cmp%d", i+1), c)
				}
			}
		}
		// isSignificantClone: minThreshold <= 0; pair.Similarity < minThreshold; MaxEditDistance > 0; Distance > Max; minSize >= MinNodes
		if fd := get(p, "clone_detector.go", "CloneDetector", "isSignificantClone"); fd != nil {
			cs := cmpOps(p, fd)
			if len(cs) != 5 {
				fail("isSignificantClone: expected 5 comparisons, got %d", len(cs))
			} else {
				emitQcmp("clone_sig_cmp_unset", cs[0])
				emitQcmp("clone_sig_cmp_below", cs[1])
				emitQcmp("clone_sig_cmp_distset", cs[2])
				emitQcmp("clone_sig_cmp_dist", cs[3])
				emitZcmp("clone_sig_cmp_size", cs[4])
			}
		}
		if fd := get(p, "clone_detector.go", "CloneDetector", "isOverlappingLocation"); fd != nil {
			cs := cmpOps(p, fd)
			if len(cs) != 2 || cs[0].x != "loc1.EndLine" || cs[0].y != "loc2.StartLine" || cs[1].x != "loc2.EndLine" || cs[1].y != "loc1.StartLine" {
				fail("isOverlappingLocation: unexpected comparisons %v", cs)
			} else {
				emitZcmp("clone_overlap_cmp1", cs[0])
				emitZcmp("clone_overlap_cmp2", cs[1])
			}
		}
		if fd := get(p, "clone_detector.go", "CloneDetector", "shouldIncludeFragment"); fd != nil {
			cs := cmpOps(p, fd)
			if len(cs) != 2 || cs[0].x != "fragment.Size" || cs[1].x != "fragment.LineCount" {
				fail("shouldIncludeFragment: unexpected comparisons %v", cs)
			} else {
				emitZcmp("clone_include_cmp_nodes", cs[0]) // true = rejected
				emitZcmp("clone_include_cmp_lines", cs[1])
			}
		}
		if fd := get(p, "clone_detector.go", "CloneDetector", "tryCreateClonePair"); fd != nil {
			cs := cmpOps(p, fd)
			if len(cs) != 1 {
				fail("tryCreateClonePair: expected 1 comparison, got %d", len(cs))
			} else {
				emitQcmp("clone_try_cmp_min", cs[0])
			}
		}
		if fd := get(p, "clone_detector.go", "CloneDetector", "addPairWithLimit"); fd != nil {
			cs := cmpOps(p, fd)
			// len(pairs) < maxPairs ; pairs[i].Sim > pairs[j].Sim ; newPair.Sim > worst ; pairs[i].Sim > pairs[j].Sim
			if len(cs) != 4 {
				fail("addPairWithLimit: expected 4 comparisons, got %d", len(cs))
			} else {
				emitZcmp("clone_add_cmp_room", cs[0])
				emitQcmp("clone_add_cmp_better", cs[2])
			}
		}
		if fd := get(p, "clone_detector.go", "CloneDetector", "detectClonePairsWithBatchingContext"); fd != nil {
			fa := fallbackAssigns(fd)
			mp, ok1 := fa["maxPairs"]
			bs, ok2 := fa["batchSize"]
			if !ok1 || !ok2 {
				fail("batch loop: fallback assignments maxPairs/batchSize not found")
			}
			fmt.Fprintf(&b, "Definition clone_batch_default_maxPairs : Z := (%d)%%Z.\nDefinition clone_batch_default_batchSize : Z := (%d)%%Z.\n", mp, bs)
		}
		if fd := get(p, "clone_detector.go", "CloneDetector", "DetectClonesWithLSH"); fd != nil {
			// minhashThreshold clamp: < 0 -> 0, > 1 -> 1 ; est < minhashThreshold
			n := 0
			for _, c := range cmpOps(p, fd) {
				if c.x == "est" && c.y == "minhashThreshold" {
					emitQcmp("clone_lsh_cmp_est", c)
					n++
				}
			}
			if n != 1 {
				fail("DetectClonesWithLSH: comparison est ? minhashThreshold not found exactly once")
			}
		}
		if fd := get(p, "lsh_index.go", "", "NewLSHIndex"); fd != nil {
			fa := fallbackAssigns(fd)
			fmt.Fprintf(&b, "Definition clone_lsh_default_bands : Z := (%d)%%Z.\nDefinition clone_lsh_default_rows : Z := (%d)%%Z.\n", fa["bands"], fa["rows"])
			if fa["bands"] == 0 || fa["rows"] == 0 {
				fail("NewLSHIndex: fallback bands/rows not found")
			}
		}
		if fd := get(p, "lsh_index.go", "LSHIndex", "computeBandKeys"); fd != nil {
			// the band width actually used: `if total > 0 && r > total { r = total }` (absent: r unchanged)
			clamp := false
			ast.Inspect(fd, func(nd ast.Node) bool {
				is, ok := nd.(*ast.IfStmt)
				if !ok || len(is.Body.List) != 1 {
					return true
				}
				if as, ok := is.Body.List[0].(*ast.AssignStmt); ok && src(p, as) == "r = total" && src(p, is.Cond) == "total > 0 && r > total" {
					clamp = true
				}
				return true
			})
			if clamp {
				b.WriteString("Definition clone_lsh_rows_used (r total : Z) : Z := if Z.ltb 0 total && Z.ltb total r then total else r.\n")
			} else {
				b.WriteString("Definition clone_lsh_rows_used (r total : Z) : Z := r.\n")
			}
			fa := fallbackAssigns(fd)
			if fa["r"] != 4 || fa["b"] != 32 {
				fmt.Fprintf(&b, "(* computeBandKeys fallbacks r=%d b=%d *)\n", fa["r"], fa["b"])
			}
		}
		if fd := get(p, "minhash.go", "", "NewMinHasher"); fd != nil {
			fa := fallbackAssigns(fd)
			fmt.Fprintf(&b, "Definition clone_minhash_default_hashes : Z := (%d)%%Z.\n", fa["numHashes"])
			if fa["numHashes"] == 0 {
				fail("NewMinHasher: fallback numHashes not found")
			}
		}
		// service: filterClonePairs comparisons and createDetectorConfig literals
		if fd := get(sp, "clone_service.go", "CloneService", "filterClonePairs"); fd != nil {
			cs := cmpOps(sp, fd)
			if len(cs) != 2 || cs[0].y != "req.MinSimilarity" || cs[1].y != "req.MaxSimilarity" {
				fail("filterClonePairs: unexpected comparisons %v", cs)
			} else {
				emitQcmp("clone_filter_cmp_min", cs[0]) // true = dropped
				emitQcmp("clone_filter_cmp_max", cs[1])
			}
		}
		if fd := get(sp, "clone_service.go", "CloneService", "createDetectorConfig"); fd != nil {
			f := compositeFields(fd, "analyzer.CloneDetectorConfig")
			for _, k := range []string{"MaxClonePairs", "BatchSizeThreshold"} {
				if v, ok := intLit(f[k]); ok {
					fmt.Fprintf(&b, "Definition clone_service_%s : Z := (%d)%%Z.\n", k, v)
				} else {
					fail("createDetectorConfig: %s is not an integer literal", k)
				}
			}
			for _, k := range []string{"BatchSizeLarge", "BatchSizeSmall", "LargeProjectSize"} {
				if _, present := f[k]; present {
					fail("createDetectorConfig now sets %s (model assumes it stays 0)", k)
				}
			}
		}
		writeGen("CloneConst.v", b.String())

		for _, f := range []string{"shouldIncludeFragment", "extractFragmentsRecursive", "detectClonePairsWithContext",
			"detectClonePairsStandardWithContext", "detectClonePairsWithBatchingContext", "calculateBatchSize",
			"shouldCompareFragments", "compareFragments", "compareWithAPTED", "compareFragmentsWithClassifier", "classifyCloneType",
			"isSignificantClone", "isOverlappingLocation", "tryCreateClonePair", "addPairWithLimit", "limitAndSortClonePairs",
			"DetectClonesWithLSH"} {
			recordDigest(p, "clone_detector.go", "CloneDetector", f)
		}
		for _, f := range []string{"computeBandKeys", "FindCandidates", "addToBuckets"} {
			recordDigest(p, "lsh_index.go", "LSHIndex", f)
		}
		for _, f := range []string{"ComputeSignature", "EstimateJaccardSimilarity"} {
			recordDigest(p, "minhash.go", "MinHasher", f)
		}
		recordDigest(p, "syntactic_similarity.go", "", "jaccardSimilarity")
		recordDigest(sp, "clone_service.go", "CloneService", "filterClonePairs")
		recordDigest(sp, "clone_service.go", "CloneService", "createDetectorConfig")
		dp := loadPkg("domain")
		recordDigest(dp, "clone.go", "CloneRequest", "Validate")
		recordDigest(dp, "clone.go", "", "ShouldUseLSH")
	})
}
