package main

// gen_class.go: what the class-metric models (Class/CBO.v, Class/LCOM.v; properties C13, C14)
// read off internal/analyzer/cbo.go and lcom.go -> coq/Gen/ClassConst.v.
//
//   * the parser.Node child fields each analyser's walkNode traverses (as a list of field names:
//     the models' "is this position visited" function is defined from it)
//   * cbo.go's built-in type / built-in function tables
//   * whether collectImports binds names imported without "as" (reads importNode.Names)
//   * whether analyzeClass removes the class's own name from its dependency set
//   * whether extractClassName reads Attribute / Subscript nodes through Value / Name (as ast_builder.go fills them)
//   * the comparison operators of both assessRiskLevel functions
//   * lcom.go's excluded decorator names and the receiver name ("self")

import (
	"fmt"
	"go/ast"
	"go/token"
	"strconv"
	"strings"
)

var clsNodeFields = map[string]bool{"Children": true, "Body": true, "Orelse": true, "Finalbody": true, "Handlers": true,
	"Args": true, "Keywords": true, "Targets": true, "Bases": true, "Decorator": true, "Value": true, "Left": true,
	"Right": true, "Test": true, "Iter": true}

// clsWalkFields: every node.<Field> selector (Field a child field of parser.Node) in the body of fd,
// where "node" is the first parameter of fd.
func clsWalkFields(fd *ast.FuncDecl) []string {
	if fd == nil || fd.Type.Params == nil || len(fd.Type.Params.List) == 0 || len(fd.Type.Params.List[0].Names) == 0 {
		return nil
	}
	param := fd.Type.Params.List[0].Names[0].Name
	seen := map[string]bool{}
	var out []string
	ast.Inspect(fd.Body, func(n ast.Node) bool {
		se, ok := n.(*ast.SelectorExpr)
		if !ok {
			return true
		}
		id, ok := se.X.(*ast.Ident)
		if ok && id.Name == param && clsNodeFields[se.Sel.Name] && !seen[se.Sel.Name] {
			seen[se.Sel.Name] = true
			out = append(out, se.Sel.Name)
		}
		return true
	})
	return out
}

// clsStringSlice: the string elements of the composite literal assigned to variable name in fd.
func clsStringSlice(fd *ast.FuncDecl, name string) []string {
	var out []string
	if fd == nil {
		return nil
	}
	ast.Inspect(fd.Body, func(n ast.Node) bool {
		as, ok := n.(*ast.AssignStmt)
		if !ok || len(as.Lhs) != 1 || len(as.Rhs) != 1 {
			return true
		}
		id, ok := as.Lhs[0].(*ast.Ident)
		if !ok || id.Name != name {
			return true
		}
		cl, ok := as.Rhs[0].(*ast.CompositeLit)
		if !ok {
			return true
		}
		for _, e := range cl.Elts {
			if bl, ok := e.(*ast.BasicLit); ok && bl.Kind == token.STRING {
				if s, err := strconv.Unquote(bl.Value); err == nil {
					out = append(out, s)
				}
			}
		}
		return false
	})
	return out
}

// clsComparedStrings: string literals compared (==) with anything in fd.
func clsComparedStrings(fd *ast.FuncDecl) []string {
	var out []string
	if fd == nil {
		return nil
	}
	seen := map[string]bool{}
	ast.Inspect(fd.Body, func(n ast.Node) bool {
		be, ok := n.(*ast.BinaryExpr)
		if !ok || be.Op != token.EQL {
			return true
		}
		for _, e := range []ast.Expr{be.X, be.Y} {
			if bl, ok := e.(*ast.BasicLit); ok && bl.Kind == token.STRING {
				if s, err := strconv.Unquote(bl.Value); err == nil && !seen[s] {
					seen[s] = true
					out = append(out, s)
				}
			}
		}
		return true
	})
	return out
}

// clsRiskOps: the comparison operators of "x <op> a.options.LowThreshold" and "... MediumThreshold".
func clsRiskOps(fd *ast.FuncDecl) (string, string, bool) {
	low, med := "", ""
	if fd == nil {
		return "", "", false
	}
	ast.Inspect(fd.Body, func(n ast.Node) bool {
		be, ok := n.(*ast.BinaryExpr)
		if !ok {
			return true
		}
		if _, isIdent := be.X.(*ast.Ident); !isIdent {
			return true
		}
		rhs := selName(be.Y)
		c, ok := coqCmp(be.Op)
		if !ok {
			return true
		}
		if strings.HasSuffix(rhs, ".LowThreshold") {
			low = c
		} else if strings.HasSuffix(rhs, ".MediumThreshold") {
			med = c
		}
		return true
	})
	return low, med, low != "" && med != ""
}

// clsVisitorsContinue: every function literal passed to walkNode inside fd returns the literal true
// on every path (the walk is never cut below a visited node).
func clsVisitorsContinue(fd *ast.FuncDecl) bool {
	if fd == nil {
		return false
	}
	ok := true
	ast.Inspect(fd.Body, func(n ast.Node) bool {
		fl, isLit := n.(*ast.FuncLit)
		if !isLit {
			return true
		}
		ast.Inspect(fl.Body, func(m ast.Node) bool {
			if inner, nested := m.(*ast.FuncLit); nested && inner != fl {
				return false
			}
			rs, isRet := m.(*ast.ReturnStmt)
			if !isRet {
				return true
			}
			if len(rs.Results) != 1 {
				ok = false
				return true
			}
			if id, isID := rs.Results[0].(*ast.Ident); !isID || id.Name != "true" {
				ok = false
			}
			return true
		})
		return false
	})
	return ok
}

func clsCoqStrings(xs []string) string {
	q := make([]string, len(xs))
	for i, x := range xs {
		q[i] = fmt.Sprintf("%q", x)
	}
	return "[" + strings.Join(q, "; ") + "]%string"
}

func clsMentions(p *pkgInfo, fd *ast.FuncDecl, what string) bool {
	return fd != nil && strings.Contains(src(p, fd), what)
}

func init() {
	generators = append(generators, func() {
		p := loadPkg("internal/analyzer")
		var b strings.Builder
		b.WriteString("Open Scope string_scope.\n\n")

		// ---- cbo.go
		walk := findFunc(p, "cbo.go", "CBOAnalyzer", "walkNode")
		wf := clsWalkFields(walk)
		if len(wf) == 0 {
			fail("cbo.go: walkNode traverses no parser.Node child field (shape changed?)")
		}
		fmt.Fprintf(&b, "(* internal/analyzer/cbo.go: fields of parser.Node that CBOAnalyzer.walkNode traverses *)\nDefinition cbo_walk_fields : list string := %s.\n\n", clsCoqStrings(wf))
		ib := findFunc(p, "cbo.go", "CBOAnalyzer", "initializeBuiltinTypes")
		bt, bf := clsStringSlice(ib, "builtinTypes"), clsStringSlice(ib, "builtinFunctions")
		if len(bt) == 0 || len(bf) == 0 {
			fail("cbo.go: built-in tables not found in initializeBuiltinTypes")
		}
		fmt.Fprintf(&b, "Definition cbo_builtin_types : list string := %s.\nDefinition cbo_builtin_functions : list string := %s.\n\n", clsCoqStrings(bt), clsCoqStrings(bf))
		ci := findFunc(p, "cbo.go", "CBOAnalyzer", "collectImports")
		un := findFunc(p, "cbo.go", "CBOAnalyzer", "unaliasedNames")
		unaliased := ci != nil && (clsMentions(p, ci, ".Names") || (un != nil && clsMentions(p, ci, "unaliasedNames(") && clsMentions(p, un, ".Names")))
		fmt.Fprintf(&b, "(* collectImports also binds names imported without \"as\" (reads the import node's Names) *)\nDefinition cbo_imports_unaliased : bool := %v.\n", unaliased)
		ac := findFunc(p, "cbo.go", "CBOAnalyzer", "analyzeClass")
		selfExcl := clsMentions(p, ac, "delete(dependencies, classNode.Name)")
		fmt.Fprintf(&b, "(* analyzeClass removes the class's own name from its dependency set *)\nDefinition cbo_excludes_self : bool := %v.\n", selfExcl)
		ec := findFunc(p, "cbo.go", "CBOAnalyzer", "extractClassName")
		readsValue := clsMentions(p, ec, "node.Value") && clsMentions(p, ec, "node.Name") && !clsMentions(p, ec, "node.Left") && !clsMentions(p, ec, "node.Right")
		fmt.Fprintf(&b, "(* extractClassName reads an Attribute / Subscript node where ast_builder.go puts its parts (Value, Name), not Left / Right *)\nDefinition cbo_reads_value_field : bool := %v.\n", readsValue)
		neverPruned := clsVisitorsContinue(findFunc(p, "cbo.go", "CBOAnalyzer", "analyzeInstantiationAndAccess")) &&
			clsVisitorsContinue(findFunc(p, "cbo.go", "CBOAnalyzer", "analyzeTypeHints")) &&
			clsVisitorsContinue(findFunc(p, "cbo.go", "CBOAnalyzer", "collectClasses")) &&
			clsVisitorsContinue(findFunc(p, "cbo.go", "CBOAnalyzer", "collectImports"))
		fmt.Fprintf(&b, "(* the visitors of analyzeInstantiationAndAccess, analyzeTypeHints, collectClasses and collectImports always return true: the walk is never cut below a visited node *)\nDefinition cbo_walk_never_pruned : bool := %v.\n", neverPruned)
		lo, me, ok := clsRiskOps(findFunc(p, "cbo.go", "CBOAnalyzer", "assessRiskLevel"))
		if !ok {
			fail("cbo.go: assessRiskLevel comparisons with LowThreshold/MediumThreshold not found")
			lo, me = "false", "false"
		}
		fmt.Fprintf(&b, "(* assessRiskLevel: cbo <op> LowThreshold -> low, else cbo <op> MediumThreshold -> medium, else high *)\nDefinition cbo_risk_low_cmp (a b : Z) : bool := %s.\nDefinition cbo_risk_medium_cmp (a b : Z) : bool := %s.\n\n", lo, me)
		for _, f := range []string{"AnalyzeClasses", "analyzeClass", "analyzeInheritance", "analyzeTypeHints", "isTypeAnnotation",
			"extractTypeAnnotationDependencies", "analyzeMethodTypeHints", "analyzeInstantiationAndAccess", "collectClasses",
			"collectImports", "extractClassName", "shouldIncludeDependency", "extractClassNameFromCallNode", "extractClassNameFromAttribute", "isImportedDependency",
			"assessRiskLevel", "walkNode", "initializeBuiltinTypes"} {
			recordDigest(p, "cbo.go", "CBOAnalyzer", f)
		}

		// ---- lcom.go
		lw := findFunc(p, "lcom.go", "LCOMAnalyzer", "walkNode")
		lf := clsWalkFields(lw)
		if len(lf) == 0 {
			fail("lcom.go: walkNode traverses no parser.Node child field (shape changed?)")
		}
		fmt.Fprintf(&b, "(* internal/analyzer/lcom.go: fields of parser.Node that LCOMAnalyzer.walkNode traverses *)\nDefinition lcom_walk_fields : list string := %s.\n\n", clsCoqStrings(lf))
		ex := clsComparedStrings(findFunc(p, "lcom.go", "LCOMAnalyzer", "isClassOrStaticMethod"))
		if len(ex) == 0 {
			fail("lcom.go: isClassOrStaticMethod compares the decorator name with no string literal")
		}
		fmt.Fprintf(&b, "Definition lcom_excluded_decorators : list string := %s.\n", clsCoqStrings(ex))
		sn := clsComparedStrings(findFunc(p, "lcom.go", "LCOMAnalyzer", "isSelfAccess"))
		if len(sn) != 1 {
			fail("lcom.go: isSelfAccess: expected exactly one receiver name literal, found %v", sn)
			sn = []string{"?"}
		}
		fmt.Fprintf(&b, "Definition lcom_self_name : string := %q.\n", sn[0])
		lo, me, ok = clsRiskOps(findFunc(p, "lcom.go", "LCOMAnalyzer", "assessRiskLevel"))
		if !ok {
			fail("lcom.go: assessRiskLevel comparisons with LowThreshold/MediumThreshold not found")
			lo, me = "false", "false"
		}
		fmt.Fprintf(&b, "Definition lcom_risk_low_cmp (a b : Z) : bool := %s.\nDefinition lcom_risk_medium_cmp (a b : Z) : bool := %s.\n", lo, me)
		for _, f := range []string{"AnalyzeClasses", "analyzeClass", "collectMethods", "isClassOrStaticMethod", "getDecoratorName",
			"extractMethodCalls", "extractInstanceVars", "isSelfAccess", "assessRiskLevel", "collectClasses", "walkNode"} {
			recordDigest(p, "lcom.go", "LCOMAnalyzer", f)
		}
		writeGen("ClassConst.v", b.String())

		// parser functions whose output shape Class/Syntax.v:pos_path tabulates
		pp := loadPkg("internal/parser")
		for _, f := range []string{"buildNode", "buildUnaryOp", "buildSubscript", "buildWithStatement", "buildWithItem",
			"buildFormattedString", "buildDict", "buildCall", "buildAttribute", "buildCallArguments", "buildDecoratedDefinition",
			"buildTryStatement", "buildIfStatement", "buildComprehension", "buildImportFromStatement", "buildImportStatement"} {
			recordDigest(pp, "ast_builder.go", "ASTBuilder", f)
		}
	})
}
