// Command verifgen regenerates the Coq files under coq/Gen from the Go sources
// of /repo (ludo-technologies/pyscn). It is run by every check before the
// proofs are re-checked, so that the theorems are about the constants, tables
// and small decision functions the code contains *now*.
//
// usage: verifgen -repo /repo -out /verif/coq/Gen
package main

import (
	"crypto/sha256"
	"encoding/json"
	"flag"
	"fmt"
	"go/ast"
	"go/constant"
	"go/parser"
	"go/printer"
	"go/token"
	"go/types"
	"os"
	"path/filepath"
	"reflect"
	"runtime"
	"sort"
	"strings"
)

type fakeImporter struct{ pkgs map[string]*types.Package }

func (f *fakeImporter) Import(path string) (*types.Package, error) {
	if p, ok := f.pkgs[path]; ok {
		return p, nil
	}
	name := path
	if i := strings.LastIndex(path, "/"); i >= 0 {
		name = path[i+1:]
	}
	p := types.NewPackage(path, name)
	p.MarkComplete()
	f.pkgs[path] = p
	return p, nil
}

type pkgInfo struct {
	dir   string
	fset  *token.FileSet
	files map[string]*ast.File
	pkg   *types.Package
	info  *types.Info
}

var (
	repo     string
	outDir   string
	digest   = map[string]string{}
	problems []string
)

// curGen is the source file of the generator that is running: every problem is tagged with it so that a check only
// looks at the generators its own Coq files depend on.
var curGen = "main.go"

func fail(format string, a ...interface{}) {
	problems = append(problems, "["+curGen+"] "+fmt.Sprintf(format, a...))
}

func loadPkg(rel string) *pkgInfo {
	dir := filepath.Join(repo, rel)
	fset := token.NewFileSet()
	pkgs, err := parser.ParseDir(fset, dir, func(fi os.FileInfo) bool {
		n := fi.Name()
		return !strings.HasSuffix(n, "_test.go") && !strings.HasPrefix(n, "verif_")
	}, parser.ParseComments)
	if err != nil {
		fail("parse %s: %v", rel, err)
		return nil
	}
	var files []*ast.File
	fm := map[string]*ast.File{}
	for _, p := range pkgs {
		if strings.HasSuffix(p.Name, "_test") {
			continue
		}
		names := make([]string, 0, len(p.Files))
		for n := range p.Files {
			names = append(names, n)
		}
		sort.Strings(names)
		for _, n := range names {
			files = append(files, p.Files[n])
			fm[filepath.Base(n)] = p.Files[n]
		}
	}
	info := &types.Info{Defs: map[*ast.Ident]types.Object{}, Types: map[ast.Expr]types.TypeAndValue{},
		Uses: map[*ast.Ident]types.Object{}, Selections: map[*ast.SelectorExpr]*types.Selection{}}
	conf := types.Config{Importer: &fakeImporter{pkgs: map[string]*types.Package{}}, Error: func(error) {}, FakeImportC: true}
	pkg, _ := conf.Check(rel, fset, files, info)
	return &pkgInfo{dir: rel, fset: fset, files: fm, pkg: pkg, info: info}
}

// coqQ renders an exact constant as a Coq Q literal.
func coqQ(v constant.Value) (string, bool) {
	v = constant.ToFloat(v)
	if v.Kind() != constant.Float && v.Kind() != constant.Int {
		return "", false
	}
	num := constant.Num(v)
	den := constant.Denom(v)
	if num.Kind() != constant.Int || den.Kind() != constant.Int {
		return "", false
	}
	return fmt.Sprintf("((%s) # %s)%%Q", num.ExactString(), den.ExactString()), true
}

func coqZ(v constant.Value) (string, bool) {
	v = constant.ToInt(v)
	if v.Kind() != constant.Int {
		return "", false
	}
	return fmt.Sprintf("(%s)%%Z", v.ExactString()), true
}

// emitConsts writes every numeric package-level constant of the package.
func emitConsts(b *strings.Builder, p *pkgInfo, prefix string) int {
	if p == nil || p.pkg == nil {
		return 0
	}
	scope := p.pkg.Scope()
	names := scope.Names()
	sort.Strings(names)
	n := 0
	for _, name := range names {
		c, ok := scope.Lookup(name).(*types.Const)
		if !ok {
			continue
		}
		v := c.Val()
		bt, _ := c.Type().Underlying().(*types.Basic)
		if bt == nil {
			continue
		}
		switch {
		case bt.Info()&types.IsInteger != 0:
			if s, ok := coqZ(v); ok {
				fmt.Fprintf(b, "Definition %s_%s : Z := %s.\n", prefix, name, s)
				n++
			}
		case bt.Info()&types.IsFloat != 0:
			if s, ok := coqQ(v); ok {
				fmt.Fprintf(b, "Definition %s_%s : Q := %s.\n", prefix, name, s)
				n++
			}
		}
	}
	return n
}

func findFunc(p *pkgInfo, file, recv, name string) *ast.FuncDecl {
	if p == nil {
		return nil
	}
	for fname, f := range p.files {
		if file != "" && fname != file {
			continue
		}
		for _, d := range f.Decls {
			fd, ok := d.(*ast.FuncDecl)
			if !ok || fd.Name.Name != name {
				continue
			}
			r := ""
			if fd.Recv != nil && len(fd.Recv.List) > 0 {
				t := fd.Recv.List[0].Type
				if s, ok := t.(*ast.StarExpr); ok {
					t = s.X
				}
				if id, ok := t.(*ast.Ident); ok {
					r = id.Name
				}
			}
			if r == recv {
				return fd
			}
		}
	}
	return nil
}

func src(p *pkgInfo, n ast.Node) string {
	var sb strings.Builder
	_ = printer.Fprint(&sb, p.fset, n)
	return sb.String()
}

// recordDigest stores a hash of the (comment-free) source of a function the
// hand-written models mirror; the evidence files carry it, so a reader can see
// which functions changed since the model was written. It does not gate.
func recordDigest(p *pkgInfo, file, recv, name string) {
	fd := findFunc(p, file, recv, name)
	key := p.dir + "/" + file + ":" + recv + "." + name
	if fd == nil {
		fail("function not found: %s", key)
		return
	}
	h := sha256.Sum256([]byte(src(p, fd)))
	digest[key] = fmt.Sprintf("%x", h[:8])
}

func writeGen(name, body string) {
	hdr := "(* GENERATED by /verif/translator from /repo sources on every check run. Do not edit. *)\n" +
		"From Coq Require Import ZArith QArith List String.\nImport ListNotations.\nOpen Scope Z_scope.\n\n"
	path := filepath.Join(outDir, name)
	content := hdr + body
	if old, err := os.ReadFile(path); err == nil && string(old) == content {
		return // keep mtime: no needless recompilation
	}
	if err := os.WriteFile(path, []byte(content), 0o644); err != nil {
		fail("write %s: %v", path, err)
	}
}

func main() {
	flag.StringVar(&repo, "repo", "/repo", "repository root")
	flag.StringVar(&outDir, "out", "/verif/coq/Gen", "output directory")
	flag.Parse()
	_ = os.MkdirAll(outDir, 0o755)

	for _, g := range generators {
		curGen = "main.go"
		if fn := runtime.FuncForPC(reflect.ValueOf(g).Pointer()); fn != nil {
			file, _ := fn.FileLine(fn.Entry())
			curGen = filepath.Base(file)
		}
		func() {
			defer func() {
				if r := recover(); r != nil {
					fail("generator panicked: %v", r)
				}
			}()
			g()
		}()
	}

	dj, _ := json.MarshalIndent(map[string]interface{}{"functions": digest, "problems": problems}, "", " ")
	_ = os.WriteFile(filepath.Join(outDir, "digest.json"), dj, 0o644)
	if len(problems) > 0 {
		for _, p := range problems {
			fmt.Println("TRANSLATOR-PROBLEM:", p)
		}
		os.Exit(2)
	}
}

var generators []func()
